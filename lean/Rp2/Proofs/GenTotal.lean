import Rp2.Proofs.CliTotal
import Rp2.Proofs.ReportTotal
import Rp2.Proofs.FracTypes
import Rp2.Proofs.JpTotal
/-! C16: the generator models on the computed data of a valid run. -/
namespace Rp2.Cli
open Rp2

/-- every computed asset of a run comes from `compute` on a configured sheet -/
theorem computeAll_mem (o : Options) (acctName : Nat → String) (period : Nat) (sched : List (Int × Method)) (names : List String) (sheets : List AssetIn)
    (cs : List Computed) (h : computeAll o acctName period sched names sheets = .ok cs) :
    ∀ c ∈ cs, ∃ a s, s ∈ sheets ∧ compute a acctName (period : Int) o.allowNeg o.fromD o.toD sched s.ins s.outs s.intras = .ok c := by
  intro c hc
  unfold computeAll at h
  obtain ⟨a, _, ha⟩ := mapM_ok_mem _ names cs h c hc
  cases hf : sheets.find? (·.name == a) with
  | none => simp [hf] at ha
  | some s =>
    simp only [hf] at ha
    exact ⟨a, s, List.mem_of_find?_eq_some hf, ha⟩

theorem genReport_full (o : Options) (period : Nat) (holderOf : Nat → String) (cs : List Computed) :
    ∃ rep, genReport o "rp2_full_report" period holderOf cs = .ok rep := by
  obtain ⟨rows, hrows⟩ := genFull_total holderOf period cs
  exact ⟨Report.full rows, by simp [genReport, hrows, Except.map]⟩

theorem genReport_tax (o : Options) (base : String) (period : Nat) (holderOf : Nat → String) (cs : List Computed)
    (hb : base ≠ "rp2_full_report" ∧ base ≠ "open_positions" ∧ base ≠ "tax_report_jp")
    (hc : ∀ c ∈ cs, ∃ asset acctName per allowNeg fromD toD sched ins outs intras,
      compute asset acctName per allowNeg fromD toD sched ins outs intras = .ok c ∧ ∀ o ∈ outs, ValidOutType o.typ) :
    ∃ rep, genReport o base period holderOf cs = .ok rep := by
  obtain ⟨r, hr⟩ := taxReport_total_on_computed period cs hc
  exact ⟨Report.tax r.1 r.2, by simp [genReport, hb.1, hb.2.1, hb.2.2, hr, Except.map]⟩

theorem genReport_jp (o : Options) (period : Nat) (holderOf : Nat → String) (cs : List Computed)
    (hw : (o.fromD.isSome && o.toD.isSome) = false)
    (hv : ∀ c ∈ cs, ∀ x ∈ c.intras, gt13 (dsub (ofUnits x.sent) (ofUnits x.recv)) 0 = true → gt13 (dmul (dsub (ofUnits x.sent) (ofUnits x.recv)) (ofUnits x.price)) 0 = true) :
    ∃ rep, genReport o "tax_report_jp" period holderOf cs = .ok rep := by
  obtain ⟨l, hl⟩ := mapM_total (jpAsset true) cs (fun c hc => jpAsset_total true c (hv c hc))
  exact ⟨Report.jp l.flatten, by simp [genReport, hw, hl, Except.map]⟩

end Rp2.Cli
