import Rp2.Proofs.CliTotal
import Rp2.Proofs.ReportTotal
import Rp2.Proofs.FracTypes
import Rp2.Proofs.JpTotal
import Rp2.Proofs.OpenPosModel
/-! C16: the generator models on the computed data of a valid run. -/
namespace Rp2.Cli
open Rp2

/-- every computed asset of a run comes from `compute` on a configured sheet -/
theorem computeAll_mem (o : Options) (acctName : Nat → String) (period : Nat) (sched : List (Int × Method)) (names : List String) (sheets : List AssetIn)
    (cs : List Computed) (h : computeAll o acctName period sched names sheets = .ok cs) :
    ∀ c ∈ cs, ∃ a s, s ∈ sheets ∧ compute a acctName (period : Int) o.allowNeg o.fromD o.toD sched s.ins s.outs s.intras = .ok c := by
  intro c hc
  unfold computeAll at h
  obtain ⟨a, _, ha⟩ := mapM_ok_mem _ names cs h c hc
  cases hf : sheets.find? (·.name == a) with
  | none => simp [hf] at ha
  | some s =>
    simp only [hf] at ha
    exact ⟨a, s, List.mem_of_find?_eq_some hf, ha⟩

theorem genReport_full (o : Options) (period : Nat) (holderOf : Nat → String) (cs : List Computed) :
    ∃ rep, genReport o "rp2_full_report" period holderOf cs = .ok rep := by
  obtain ⟨rows, hrows⟩ := genFull_total holderOf period cs
  exact ⟨Report.full rows, by simp [genReport, hrows, Except.map]⟩

theorem genReport_open (o : Options) (period : Nat) (holderOf : Nat → String) (cs : List Computed) :
    ∃ rep, genReport o "open_positions" period holderOf cs = .ok rep := by
  obtain ⟨r, hr⟩ := openPositions_total holderOf cs
  refine ⟨Report.openPos r.1 r.2.1 (totalRows "A" r.2.2 r.1.length ++ totalRows "E" r.2.2 r.2.1.length), ?_⟩
  simp [genReport, hr, Except.map]

theorem genReport_tax (o : Options) (base : String) (period : Nat) (holderOf : Nat → String) (cs : List Computed)
    (hb : base ≠ "rp2_full_report" ∧ base ≠ "open_positions" ∧ base ≠ "tax_report_jp")
    (hc : ∀ c ∈ cs, ∃ asset acctName per allowNeg fromD toD sched ins outs intras,
      compute asset acctName per allowNeg fromD toD sched ins outs intras = .ok c ∧ ∀ o ∈ outs, ValidOutType o.typ) :
    ∃ rep, genReport o base period holderOf cs = .ok rep := by
  obtain ⟨r, hr⟩ := taxReport_total_on_computed period cs hc
  exact ⟨Report.tax r.1 r.2, by simp [genReport, hb.1, hb.2.1, hb.2.2, hr, Except.map]⟩

theorem genReport_jp (o : Options) (period : Nat) (holderOf : Nat → String) (cs : List Computed)
    (hw : (o.fromD.isSome && o.toD.isSome) = false)
    (hv : ∀ c ∈ cs, ∀ x ∈ c.intras, gt13 (dsub (ofUnits x.sent) (ofUnits x.recv)) 0 = true → gt13 (dmul (dsub (ofUnits x.sent) (ofUnits x.recv)) (ofUnits x.price)) 0 = true) :
    ∃ rep, genReport o "tax_report_jp" period holderOf cs = .ok rep := by
  obtain ⟨l, hl⟩ := mapM_total (jpAsset true) cs (fun c hc => jpAsset_total true c (hv c hc))
  exact ⟨Report.jp l.flatten, by simp [genReport, hw, hl, Except.map]⟩

end Rp2.Cli

namespace Rp2.Cli
open Rp2

/-- every generator model succeeds on computed data of accepted input; the Japanese report additionally needs "not both a from- and a
    to-date" (finding F8) and visible yen fees (finding F13) -/
theorem genReport_total (o : Options) (base : String) (period : Nat) (holderOf : Nat → String) (cs : List Computed)
    (hc : ∀ c ∈ cs, ∃ asset acctName per allowNeg fromD toD sched ins outs intras,
      compute asset acctName per allowNeg fromD toD sched ins outs intras = .ok c ∧ ∀ o ∈ outs, ValidOutType o.typ)
    (hjp : base = "tax_report_jp" → (o.fromD.isSome && o.toD.isSome) = false ∧
      ∀ c ∈ cs, ∀ x ∈ c.intras, gt13 (dsub (ofUnits x.sent) (ofUnits x.recv)) 0 = true → gt13 (dmul (dsub (ofUnits x.sent) (ofUnits x.recv)) (ofUnits x.price)) 0 = true) :
    ∃ rep, genReport o base period holderOf cs = .ok rep := by
  by_cases h1 : base = "rp2_full_report"
  · subst h1; exact genReport_full o period holderOf cs
  by_cases h2 : base = "open_positions"
  · subst h2; exact genReport_open o period holderOf cs
  by_cases h3 : base = "tax_report_jp"
  · subst h3; exact genReport_jp o period holderOf cs (hjp rfl).1 (hjp rfl).2
  exact genReport_tax o base period holderOf cs ⟨h1, h2, h3⟩ hc

/-- **C16 on the whole-run model, generator hypotheses discharged**: a valid invocation (no option fault, the input computes, OUT rows
    carry disposal types) exits with status 0 and writes exactly one report per generator of the country, provided the templates exist
    (decided over the regenerated template table for the shipped languages) and, for the Japanese report, findings F8 / F13 do not apply -/
theorem run_complete_on_computed (o : Options) (acctName holderOf : Nat → String) (cfgAssets : List String) (sheets : List AssetIn)
    (iso : String) (period : Nat) (defMethod : String) (methods gens : List String) (defLang : String) (sched : List (Int × Method)) (cs : List Computed)
    (v : Valid o acctName cfgAssets sheets iso period defMethod methods gens defLang sched cs)
    (hout : ∀ s ∈ sheets, ∀ t ∈ s.outs, ValidOutType t.typ)
    (ht : ∀ g ∈ ordered gens, hasTemplate iso (genBase g) (o.lang.getD defLang) = true)
    (hjp : ∀ g ∈ ordered gens, genBase g = "tax_report_jp" → (o.fromD.isSome && o.toD.isSome) = false ∧
      ∀ c ∈ cs, ∀ x ∈ c.intras, gt13 (dsub (ofUnits x.sent) (ofUnits x.recv)) 0 = true → gt13 (dmul (dsub (ofUnits x.sent) (ofUnits x.recv)) (ofUnits x.price)) 0 = true) :
    (run o acctName holderOf cfgAssets sheets).exit = 0 ∧
    (run o acctName holderOf cfgAssets sheets).files.map (·.1) =
      (ordered gens).map (fun g => fileName o.pfx (methodName (scheduleOf o defMethod)) (genBase g)) := by
  apply run_complete o acctName holderOf cfgAssets sheets iso period defMethod methods gens defLang sched cs v
  intro g hg
  refine ⟨ht g hg, genReport_total o (genBase g) period holderOf cs ?_ (hjp g hg)⟩
  intro c hc
  obtain ⟨a, s, hs, hcomp⟩ := computeAll_mem o acctName period sched (assetNames o cfgAssets) sheets cs v.computed c hc
  exact ⟨a, acctName, period, o.allowNeg, o.fromD, o.toD, sched, s.ins, s.outs, s.intras, hcomp, hout s hs⟩

end Rp2.Cli
