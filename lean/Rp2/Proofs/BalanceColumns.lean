import Rp2.Proofs.BalanceModel
/-! The four reported figures per account (acquired, sent, received, final) of the executable balance model are the plain
sums over that account's transactions, and every account touched has exactly one row (C07). -/
namespace Rp2

def colOf (g : BalRow → Int) (bs : List BalRow) (a : Nat) : Int := ((bs.find? (·.acct == a)).map g).getD 0

theorem bsGet_col (g : BalRow → Int) (hg : ∀ a, g { acct := a } = 0) (bs : List BalRow) (a : Nat) : g (bsGet bs a) = colOf g bs a := by
  unfold bsGet colOf; cases bs.find? (·.acct == a) <;> simp [hg]

theorem colOf_updBal (g : BalRow → Int) (bs : List BalRow) (a : Nat) (f : BalRow → BalRow) (hf : ∀ b, (f b).acct = b.acct) (x : Nat) :
    colOf g (updBal bs a f) x = if x = a then g (f (bsGet bs a)) else colOf g bs x := by
  unfold colOf
  rw [find_updBal bs a f hf x]
  split <;> rfl

theorem colOf_updBal_same (g : BalRow → Int) (hg : ∀ a, g { acct := a } = 0) (bs : List BalRow) (a : Nat) (f : BalRow → BalRow)
    (hf : ∀ b, (f b).acct = b.acct) (hsame : ∀ b, g (f b) = g b) (x : Nat) : colOf g (updBal bs a f) x = colOf g bs x := by
  rw [colOf_updBal g bs a f hf x]
  split
  · rename_i h; subst h; rw [hsame, bsGet_col g hg]
  · rfl

/-- what a transaction adds to each figure of account `a` -/
def dAcq (a : Nat) : AnyTx → Int
  | .i t => if a = t.acct then t.amount else 0
  | _ => 0
def dSent (a : Nat) : AnyTx → Int
  | .x t => if a = t.src then t.sent else 0
  | .o t => if a = t.acct then t.outNoFee + t.fee else 0
  | _ => 0
def dRecv (a : Nat) : AnyTx → Int
  | .x t => if a = t.dst then t.recv else 0
  | _ => 0

theorem acq_step (bs : List BalRow) (t : AnyTx) (a : Nat) : colOf (·.acq) (balUpd bs t) a = colOf (·.acq) bs a + dAcq a t := by
  have hg : ∀ a, (fun b : BalRow => b.acq) { acct := a } = 0 := fun _ => rfl
  cases t with
  | i t =>
    simp only [balUpd, dAcq]
    rw [colOf_updBal _ _ _ _ (by intro b; rfl)]
    by_cases h : a = t.acct
    · simp only [h, if_true]; rw [← bsGet_col (·.acq) hg]
    · simp [h]
  | x t =>
    simp only [balUpd, dAcq]
    rw [colOf_updBal_same _ hg _ _ _ (by intro b; rfl) (by intro b; rfl), colOf_updBal_same _ hg _ _ _ (by intro b; rfl) (by intro b; rfl),
        colOf_updBal_same _ hg _ _ _ (by intro b; rfl) (by intro b; rfl), colOf_updBal_same _ hg _ _ _ (by intro b; rfl) (by intro b; rfl)]
    simp
  | o t =>
    simp only [balUpd, dAcq]
    rw [colOf_updBal_same _ hg _ _ _ (by intro b; rfl) (by intro b; rfl)]
    simp

theorem sent_step (bs : List BalRow) (t : AnyTx) (a : Nat) : colOf (·.sent) (balUpd bs t) a = colOf (·.sent) bs a + dSent a t := by
  have hg : ∀ a, (fun b : BalRow => b.sent) { acct := a } = 0 := fun _ => rfl
  cases t with
  | i t =>
    simp only [balUpd, dSent]
    rw [colOf_updBal_same _ hg _ _ _ (by intro b; rfl) (by intro b; rfl)]
    simp
  | x t =>
    simp only [balUpd, dSent]
    rw [colOf_updBal_same _ hg _ _ _ (by intro b; rfl) (by intro b; rfl), colOf_updBal_same _ hg _ _ _ (by intro b; rfl) (by intro b; rfl),
        colOf_updBal_same _ hg _ _ _ (by intro b; rfl) (by intro b; rfl), colOf_updBal _ _ _ _ (by intro b; rfl)]
    by_cases h : a = t.src
    · simp only [h, if_true]; rw [← bsGet_col (·.sent) hg]
    · simp [h]
  | o t =>
    simp only [balUpd, dSent]
    rw [colOf_updBal _ _ _ _ (by intro b; rfl)]
    by_cases h : a = t.acct
    · simp only [h, if_true]; rw [← bsGet_col (·.sent) hg]; omega
    · simp [h]

theorem recv_step (bs : List BalRow) (t : AnyTx) (a : Nat) : colOf (·.recv) (balUpd bs t) a = colOf (·.recv) bs a + dRecv a t := by
  have hg : ∀ a, (fun b : BalRow => b.recv) { acct := a } = 0 := fun _ => rfl
  cases t with
  | i t =>
    simp only [balUpd, dRecv]
    rw [colOf_updBal_same _ hg _ _ _ (by intro b; rfl) (by intro b; rfl)]
    simp
  | x t =>
    simp only [balUpd, dRecv]
    rw [colOf_updBal_same _ hg _ _ _ (by intro b; rfl) (by intro b; rfl), colOf_updBal_same _ hg _ _ _ (by intro b; rfl) (by intro b; rfl),
        colOf_updBal _ _ _ _ (by intro b; rfl)]
    by_cases h : a = t.dst
    · simp only [h, if_true]
      rw [← bsGet_col (·.recv) hg]
      -- the row of `dst` after the `sent` update of `src` has the same `recv`
      have : (bsGet (updBal bs t.src fun b => { b with sent := b.sent + t.sent }) t.dst).recv = (bsGet bs t.dst).recv := by
        rw [bsGet_col (·.recv) hg, bsGet_col (·.recv) hg, colOf_updBal_same _ hg _ _ _ (by intro b; rfl) (by intro b; rfl)]
      simp only [this]
    · simp only [h, if_false]
      rw [colOf_updBal_same _ hg _ _ _ (by intro b; rfl) (by intro b; rfl)]
      simp
  | o t =>
    simp only [balUpd, dRecv]
    rw [colOf_updBal_same _ hg _ _ _ (by intro b; rfl) (by intro b; rfl)]
    simp

def sumD (d : Nat → AnyTx → Int) (a : Nat) (ts : List AnyTx) : Int := (ts.map (d a)).sum

theorem col_foldl (g : BalRow → Int) (d : Nat → AnyTx → Int) (hstep : ∀ bs t a, colOf g (balUpd bs t) a = colOf g bs a + d a t) :
    ∀ (ts : List AnyTx) (bs : List BalRow) (a : Nat), colOf g (ts.foldl balUpd bs) a = colOf g bs a + sumD d a ts := by
  intro ts
  induction ts with
  | nil => intro bs a; simp [sumD]
  | cons t ts ih =>
    intro bs a
    simp only [List.foldl_cons, sumD, List.map_cons, List.sum_cons]
    rw [ih (balUpd bs t) a, hstep]; simp only [sumD]; omega

/-- a successful replay ends in the rows obtained by applying every update -/
theorem foldlM_balStep_ok (allowNeg : Bool) : ∀ (ts : List AnyTx) (bs bs' : List BalRow),
    ts.foldlM (balStep allowNeg) bs = .ok bs' → bs' = ts.foldl balUpd bs := by
  intro ts
  induction ts with
  | nil => intro bs bs' h; simp [List.foldlM, pure, Except.pure] at h; exact h.symm
  | cons t ts ih =>
    intro bs bs' h
    simp only [List.foldlM_cons, List.foldl_cons] at h ⊢
    rw [balStep_eq] at h
    cases hd : debited (toBTx t) with
    | none => rw [hd] at h; simp only [bind, Except.bind] at h; exact ih _ _ h
    | some a =>
      rw [hd] at h
      simp only at h
      split at h
      · simp [bind, Except.bind] at h
      · simp only [bind, Except.bind] at h; exact ih _ _ h

/-- **C07 (flows, on the executable model)**: if the balance computation succeeds, then for every account the reported
    acquired / sent / received figures are the plain sums over the transactions up to the to-date (`balanceOrder`) and
    final = acquired + received − sent -/
theorem balances_flows (allowNeg : Bool) (to : Option Int) (ins : List InTx) (outs : List OutTx) (intras : List IntraTx) (bs : List BalRow)
    (h : balances allowNeg to ins outs intras = .ok bs) (a : Nat) :
    colOf (·.acq) bs a = sumD dAcq a (balanceOrder to ins outs intras) ∧
    colOf (·.sent) bs a = sumD dSent a (balanceOrder to ins outs intras) ∧
    colOf (·.recv) bs a = sumD dRecv a (balanceOrder to ins outs intras) := by
  have := foldlM_balStep_ok allowNeg _ _ _ h
  subst this
  refine ⟨?_, ?_, ?_⟩
  · rw [col_foldl _ dAcq acq_step]; simp [colOf]
  · rw [col_foldl _ dSent sent_step]; simp [colOf]
  · rw [col_foldl _ dRecv recv_step]; simp [colOf]

end Rp2

namespace Rp2
theorem fin_step (bs : List BalRow) (t : AnyTx) (a : Nat) :
    finOf (balUpd bs t) a = finOf bs a + dAcq a t + dRecv a t - dSent a t := by
  cases t with
  | i t =>
    simp only [balUpd, dAcq, dRecv, dSent]
    rw [finOf_updBal _ _ _ (by intro b; rfl)]
    by_cases h : a = t.acct
    · simp only [h, if_true, bsGet_fin]; omega
    · simp [h]
  | x t =>
    simp only [balUpd, dAcq, dRecv, dSent]
    rw [finOf_move bs t.src t.dst t.sent t.recv _ _ (by intro b; rfl) (by intro b; rfl) (by intro b; rfl) (by intro b; rfl) a]
    by_cases h1 : a = t.dst
    · by_cases h3 : t.dst = t.src
      · have h2 : a = t.src := by omega
        simp only [h1, h3, if_true]; omega
      · have h2 : ¬ a = t.src := by omega
        simp only [h1, h3, if_true, if_false]; omega
    · by_cases h2 : a = t.src
      · simp only [h1, h2, if_true, if_false]
        by_cases h3 : t.src = t.dst
        · omega
        · simp only [h3, if_false]; omega
      · simp only [h1, h2, if_false]; omega
  | o t =>
    simp only [balUpd, dAcq, dRecv, dSent]
    rw [finOf_updBal _ _ _ (by intro b; rfl)]
    by_cases h : a = t.acct
    · simp only [h, if_true, bsGet_fin]; omega
    · simp [h]

theorem fin_foldl : ∀ (ts : List AnyTx) (bs : List BalRow) (a : Nat),
    finOf (ts.foldl balUpd bs) a = finOf bs a + sumD dAcq a ts + sumD dRecv a ts - sumD dSent a ts := by
  intro ts
  induction ts with
  | nil => intro bs a; simp [sumD]
  | cons t ts ih =>
    intro bs a
    simp only [List.foldl_cons, sumD, List.map_cons, List.sum_cons]
    rw [ih (balUpd bs t) a, fin_step]; simp only [sumD]; omega

/-- final = acquired + received − sent, for every account, on the executable model -/
theorem balances_final (allowNeg : Bool) (to : Option Int) (ins : List InTx) (outs : List OutTx) (intras : List IntraTx) (bs : List BalRow)
    (h : balances allowNeg to ins outs intras = .ok bs) (a : Nat) :
    finOf bs a = colOf (·.acq) bs a + colOf (·.recv) bs a - colOf (·.sent) bs a := by
  obtain ⟨h1, h2, h3⟩ := balances_flows allowNeg to ins outs intras bs h a
  have := foldlM_balStep_ok allowNeg _ _ _ h
  rw [h1, h2, h3]
  subst this
  rw [fin_foldl]; simp [finOf]

/-! ### every account touched has exactly one row -/
def touched : AnyTx → List Nat
  | .i t => [t.acct]
  | .x t => [t.src, t.dst]
  | .o t => [t.acct]

theorem updBal_keys (bs : List BalRow) (a : Nat) (f : BalRow → BalRow) (hf : ∀ b, (f b).acct = b.acct) (hnd : (bs.map (·.acct)).Nodup) :
    ((updBal bs a f).map (·.acct)).Nodup ∧ ∀ x, x ∈ (updBal bs a f).map (·.acct) ↔ x ∈ bs.map (·.acct) ∨ x = a := by
  unfold updBal
  by_cases hany : bs.any (·.acct == a) = true
  · simp only [hany, if_true]
    have hmap : (bs.map fun b => if (b.acct == a) = true then f b else b).map (·.acct) = bs.map (·.acct) := by
      rw [List.map_map]; apply List.map_congr_left; intro b _; simp only [Function.comp]; split <;> simp [hf]
    rw [hmap]
    refine ⟨hnd, fun x => ⟨Or.inl, ?_⟩⟩
    rintro (h | h)
    · exact h
    · subst h
      obtain ⟨b, hb, hba⟩ := List.any_eq_true.mp hany
      simp only [beq_iff_eq] at hba
      exact List.mem_map.mpr ⟨b, hb, hba⟩
  · simp only [hany, Bool.false_eq_true, if_false, List.map_append, List.map_cons, List.map_nil, hf]
    have hna : a ∉ bs.map (·.acct) := by
      intro h
      obtain ⟨b, hb, hba⟩ := List.mem_map.mp h
      exact hany (List.any_eq_true.mpr ⟨b, hb, by simp [hba]⟩)
    refine ⟨?_, fun x => by simp⟩
    rw [List.nodup_append]
    refine ⟨hnd, by simp, ?_⟩
    intro x hx y hy
    simp at hy; subst hy
    intro hxy; subst hxy; exact hna hx

theorem balUpd_keys (bs : List BalRow) (t : AnyTx) (hnd : (bs.map (·.acct)).Nodup) :
    ((balUpd bs t).map (·.acct)).Nodup ∧ ∀ x, x ∈ (balUpd bs t).map (·.acct) ↔ x ∈ bs.map (·.acct) ∨ x ∈ touched t := by
  cases t with
  | i t =>
    have := updBal_keys bs t.acct (fun b => { b with acq := b.acq + t.amount, fin := b.fin + t.amount }) (by intro b; rfl) hnd
    exact ⟨this.1, fun x => by rw [balUpd, this.2]; simp [touched]⟩
  | x t =>
    have h1 := updBal_keys bs t.src (fun b => { b with sent := b.sent + t.sent }) (by intro b; rfl) hnd
    have h2 := updBal_keys _ t.dst (fun b => { b with recv := b.recv + t.recv }) (by intro b; rfl) h1.1
    have h3 := updBal_keys _ t.src (fun b => { b with fin := b.fin - t.sent }) (by intro b; rfl) h2.1
    have h4 := updBal_keys _ t.dst (fun b => { b with fin := b.fin + t.recv }) (by intro b; rfl) h3.1
    refine ⟨h4.1, fun x => ?_⟩
    simp only [balUpd]
    rw [h4.2, h3.2, h2.2, h1.2]
    simp only [touched, List.mem_cons, List.not_mem_nil, or_false]
    constructor
    · rintro ((((h | h) | h) | h) | h)
      · exact Or.inl h
      · exact Or.inr (Or.inl h)
      · exact Or.inr (Or.inr h)
      · exact Or.inr (Or.inl h)
      · exact Or.inr (Or.inr h)
    · rintro (h | h | h)
      · exact Or.inl (Or.inl (Or.inl (Or.inl h)))
      · exact Or.inl (Or.inl (Or.inl (Or.inr h)))
      · exact Or.inr h
  | o t =>
    have := updBal_keys bs t.acct (fun b => { b with sent := b.sent + t.outNoFee + t.fee, fin := b.fin - t.outNoFee - t.fee }) (by intro b; rfl) hnd
    exact ⟨this.1, fun x => by rw [balUpd, this.2]; simp [touched]⟩

theorem foldl_balUpd_keys : ∀ (ts : List AnyTx) (bs : List BalRow), (bs.map (·.acct)).Nodup →
    ((ts.foldl balUpd bs).map (·.acct)).Nodup ∧
    ∀ x, x ∈ (ts.foldl balUpd bs).map (·.acct) ↔ x ∈ bs.map (·.acct) ∨ ∃ t ∈ ts, x ∈ touched t := by
  intro ts
  induction ts with
  | nil => intro bs h; simp [h]
  | cons t ts ih =>
    intro bs h
    have h1 := balUpd_keys bs t h
    have h2 := ih (balUpd bs t) h1.1
    simp only [List.foldl_cons]
    refine ⟨h2.1, fun x => ?_⟩
    rw [h2.2, h1.2]
    constructor
    · rintro ((h | h) | ⟨t', ht', hx⟩)
      · exact Or.inl h
      · exact Or.inr ⟨t, List.mem_cons_self, h⟩
      · exact Or.inr ⟨t', List.mem_cons_of_mem _ ht', hx⟩
    · rintro (h | ⟨t', ht', hx⟩)
      · exact Or.inl (Or.inl h)
      · rcases List.mem_cons.mp ht' with rfl | ht''
        · exact Or.inl (Or.inr hx)
        · exact Or.inr ⟨t', ht'', hx⟩

/-- every account touched by a transaction up to the to-date appears exactly once, and no other account appears -/
theorem balances_accounts (allowNeg : Bool) (to : Option Int) (ins : List InTx) (outs : List OutTx) (intras : List IntraTx) (bs : List BalRow)
    (h : balances allowNeg to ins outs intras = .ok bs) :
    (bs.map (·.acct)).Nodup ∧ ∀ x, x ∈ bs.map (·.acct) ↔ ∃ t ∈ balanceOrder to ins outs intras, x ∈ touched t := by
  have := foldlM_balStep_ok allowNeg _ _ _ h
  subst this
  have := foldl_balUpd_keys (balanceOrder to ins outs intras) [] (by simp)
  exact ⟨this.1, fun x => by rw [this.2]; simp⟩
end Rp2
