import Rp2.Model.Report
/-! Order independence (C17): time-sorting a table does not depend on the order of its rows when timestamps are distinct;
the full-report rows of an asset do not depend on the transaction-row dictionary left by other assets. -/
namespace Rp2

theorem sortByTs_perm_eq {α} (ts : α → Int) (l₁ l₂ : List α) (hp : l₁.Perm l₂)
    (hinj : ∀ a ∈ l₁, ∀ b ∈ l₁, ts a = ts b → a = b) : sortByTs ts l₁ = sortByTs ts l₂ := by
  unfold sortByTs
  have tr : ∀ (a b c : α), decide (ts a ≤ ts b) = true → decide (ts b ≤ ts c) = true → decide (ts a ≤ ts c) = true := by
    intro a b c h1 h2; simp only [decide_eq_true_eq] at *; omega
  have tot : ∀ (a b : α), (decide (ts a ≤ ts b) || decide (ts b ≤ ts a)) = true := by
    intro a b; simp only [Bool.or_eq_true, decide_eq_true_eq]; omega
  have s1 := List.pairwise_mergeSort tr tot l₁
  have s2 := List.pairwise_mergeSort tr tot l₂
  have p1 := List.mergeSort_perm l₁ (fun a b => decide (ts a ≤ ts b))
  have p2 := List.mergeSort_perm l₂ (fun a b => decide (ts a ≤ ts b))
  refine List.Perm.eq_of_pairwise ?_ s1 s2 (p1.trans (hp.trans p2.symm))
  intro a b ha hb h1 h2
  simp only [decide_eq_true_eq] at h1 h2
  have ha' : a ∈ l₁ := p1.subset ha
  have hb' : b ∈ l₁ := hp.symm.subset (p2.subset hb)
  exact hinj a ha' b hb' (by omega)

/-- with the per-asset dictionary (repaired F4) the rows generated for an asset do not depend on which transactions
    earlier assets wrote at which rows -/
theorem genAsset_txRow_irrelevant (sd : Bool) (h : Nat → String) (p : Int) (st st' : GenState) (c : Computed)
    (hy : st.yearRow = st'.yearRow) (hs : st.summaryRow = st'.summaryRow) :
    genAsset true sd h p st c = genAsset true sd h p st' c := by
  have : layoutAsset true h p st c = layoutAsset true h p st' c := by
    unfold layoutAsset
    simp only [hy, hs, if_true]
  unfold genAsset
  rw [this]
end Rp2
