namespace Rp2

/-- round-half-even of a non-negative rational to an integer -/
def roundHalfEvenNat (n d : Nat) : Nat :=
  let q := n / d
  let r := n % d
  if 2 * r < d then q else if 2 * r > d then q + 1 else if q % 2 = 0 then q else q + 1

/-- number of decimal digits of n (0 for 0) -/
def ndigits : Nat → Nat → Nat
  | 0, _ => 0
  | fuel+1, n => if n = 0 then 0 else 1 + ndigits fuel (n / 10)

/-- the comparison `n/d ≥ 10^e`, on numerator and denominator -/
def geP (n d : Nat) (e : Int) : Bool := if e ≥ 0 then decide (d * 10 ^ e.toNat ≤ n) else decide (d ≤ n * 10 ^ (-e).toNat)

/-- `n/d` (positive) rounded to `p` significant digits, ties to even -/
def rndMag (p n d : Nat) : Rat :=
  -- first guess of floor(log10 (n/d)), then corrected
  let e0 : Int := (ndigits (n+1) n : Int) - (ndigits (d+1) d : Int)
  let e : Int := if geP n d e0 then (if geP n d (e0 + 1) then e0 + 1 else e0) else e0 - 1
  -- scale so that the integer part has p digits: y = (n/d) * 10^(p-1-e)
  let k : Int := (p : Int) - 1 - e
  if k ≥ 0 then ((roundHalfEvenNat (n * 10 ^ k.toNat) d : Nat) : Rat) / ((10 ^ k.toNat : Nat) : Rat)
  else ((roundHalfEvenNat n (d * 10 ^ (-k).toNat) : Nat) : Rat) * ((10 ^ (-k).toNat : Nat) : Rat)

/-- Python `decimal` value semantics: exact result rounded to `p` significant digits, ties to even -/
def rnd (p : Nat) (x : Rat) : Rat :=
  if x = 0 then 0 else if x.num < 0 then -rndMag p x.num.natAbs x.den else rndMag p x.num.natAbs x.den

def quant (dec : Nat) (x : Rat) : Rat :=
  let s : Nat := 10 ^ dec
  let n := x.num.natAbs * s
  let r := roundHalfEvenNat n x.den
  let v : Rat := (r : Rat) / (s : Rat)
  if x.num < 0 then -v else v

end Rp2
