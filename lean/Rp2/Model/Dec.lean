namespace Rp2

/-- round-half-even of a non-negative rational to an integer -/
def roundHalfEvenNat (n d : Nat) : Nat :=
  let q := n / d
  let r := n % d
  if 2 * r < d then q else if 2 * r > d then q + 1 else if q % 2 = 0 then q else q + 1

/-- number of decimal digits of n (0 for 0) -/
def ndigits : Nat → Nat → Nat
  | 0, _ => 0
  | fuel+1, n => if n = 0 then 0 else 1 + ndigits fuel (n / 10)

/-- Python `decimal` value semantics: exact result rounded to `p` significant digits, ties to even -/
def rnd (p : Nat) (x : Rat) : Rat :=
  if x = 0 then 0 else
  let n := x.num.natAbs
  let d := x.den
  -- first guess of floor(log10 |x|)
  let e0 : Int := (ndigits (n+1) n : Int) - (ndigits (d+1) d : Int)
  -- |x| >= 10^e0 ?   (compare n * 10^(-e0) with d, or n with d * 10^e0)
  let ge (e : Int) : Bool := if e ≥ 0 then decide (d * 10 ^ e.toNat ≤ n) else decide (d ≤ n * 10 ^ (-e).toNat)
  let e : Int := if ge e0 then (if ge (e0 + 1) then e0 + 1 else e0) else e0 - 1
  -- scale so that the integer part has p digits: y = |x| * 10^(p-1-e)
  let k : Int := (p : Int) - 1 - e
  let (yn, yd) := if k ≥ 0 then (n * 10 ^ k.toNat, d) else (n, d * 10 ^ (-k).toNat)
  let r := roundHalfEvenNat yn yd
  let v : Rat := if k ≥ 0 then (r : Rat) / ((10 ^ k.toNat : Nat) : Rat) else (r : Rat) * ((10 ^ (-k).toNat : Nat) : Rat)
  if x.num < 0 then -v else v

def quant (dec : Nat) (x : Rat) : Rat :=
  let s : Nat := 10 ^ dec
  let n := x.num.natAbs * s
  let r := roundHalfEvenNat n x.den
  let v : Rat := (r : Rat) / (s : Rat)
  if x.num < 0 then -v else v

end Rp2
