import Rp2.Model.Report
namespace Rp2

/-! ### open_positions -/
structure OARow where
  row : Nat
  asset : String
  holder : String
  bal : Rat
  unit : Rat
  cost : Rat
  weight : Rat
structure OERow where
  row : Nat
  asset : String
  holder : String
  acct : Nat
  bal : Rat
  unit : Rat
  cost : Rat
  weight : Rat


structure OPAsset where
  asset : String
  cost : Option Rat                      -- entry in asset_cost_bases, if any
  holders : List (String × Rat)          -- asset_crypto_balance_holder[asset], insertion order
  exch : List (String × Nat × Rat)       -- (holder, account, balance), insertion order

/-- the per-holder "Total" rows below the data rows of a sheet (`tag` "A" = Asset, "E" = Asset - Exchange): written only when the
    run has more than one holder, one per holder in first-seen order, starting right after the last data row -/
def totalRows (tag : String) (hs : List String) (nData : Nat) : List (String × Nat × String) :=
  if hs.length > 1 then (List.range hs.length).zip hs |>.map fun (k, h) => (tag, 3 + nData + k + 1, h) else []

/-- first pass over one asset: cost of the unsold lot parts (if any is positive), positive balances by holder and by account -/
def opAsset (holderOf : Nat → String) (c : Computed) : OPAsset :=
  let cost := c.ins.foldl (fun (acc : Option Rat) t =>
    let sold := (lookupI t.row c.sold).getD 0
    let tcb := dmul t.fiatWithFee (dsub 1 sold)
    if gt13 tcb 0 then some (dadd (acc.getD 0) tcb) else acc) none
  let pos := c.bals.filter (fun b => gt13 (ofUnits b.fin) 0)
  let holders := pos.foldl (fun acc b => addS acc (holderOf b.acct) (ofUnits b.fin)) []
  let exch := pos.map (fun b => (holderOf b.acct, b.acct, ofUnits b.fin))
  { asset := c.asset, cost, holders, exch }

/-- asset-exchange rows: grouped by holder in holder insertion order, exchanges in insertion order -/
def opGrouped (p : OPAsset) : List (String × Nat × Rat) :=
  p.holders.foldl (fun (l : List (String × Nat × Rat)) h => l ++ p.exch.filter (·.1 == h.1)) []

def opARows (p : OPAsset) (unit total : Rat) (ai : Nat) : List OARow :=
  (List.range p.holders.length).zip p.holders |>.map fun (k, (h, b)) =>
    let hc := dmul b unit
    ({ row := ai + k + 1, asset := p.asset, holder := h, bal := b, unit, cost := hc, weight := ddiv hc total } : OARow)

def opERows (p : OPAsset) (unit total : Rat) (ei : Nat) : List OERow :=
  (List.range (opGrouped p).length).zip (opGrouped p) |>.map fun (k, (h, acct, b)) =>
    let ec := dmul b unit
    ({ row := ei + k + 1, asset := p.asset, holder := h, acct, bal := b, unit, cost := ec, weight := ddiv ec total } : OERow)

/-- second pass, one asset: nothing for an asset without unsold cost, nor (after the repair of F16: the lookup used to raise `KeyError`) for
    one whose residual cost is rounding noise of the sold percentages while nothing is held any longer -/
def opStep (total : Rat) (acc : List OARow × List OERow × Nat × Nat) (p : OPAsset) : Except String (List OARow × List OERow × Nat × Nat) :=
  match p.cost with
  | none => pure acc
  | some cost =>
    if p.holders.isEmpty then pure acc
    else
      let tb := p.holders.foldl (fun s h => dadd s h.2) 0
      let unit := ddiv cost tb
      pure (acc.1 ++ opARows p unit total acc.2.2.1, acc.2.1 ++ opERows p unit total acc.2.2.2,
            acc.2.2.1 + (opARows p unit total acc.2.2.1).length, acc.2.2.2 + (opERows p unit total acc.2.2.2).length)

/-- holders of the run in first-seen order (assets in processing order, holders in balance order) -/
def opHolders (per : List OPAsset) : List String :=
  per.foldl (fun (acc : List String) p => p.holders.foldl (fun a h => if a.contains h.1 then a else a ++ [h.1]) acc) []

def openPositions (holderOf : Nat → String) (cs : List Computed) : Except String (List OARow × List OERow × List String) := do
  let per : List OPAsset := cs.map (opAsset holderOf)
  -- exact accumulation order of total_cost_basis: transaction by transaction over all assets
  let total := cs.foldl (fun (t : Rat) c => c.ins.foldl (fun t tx =>
      let sold := (lookupI tx.row c.sold).getD 0
      let tcb := dmul tx.fiatWithFee (dsub 1 sold)
      if gt13 tcb 0 then dadd t tcb else t) t) 0
  let r ← per.foldlM (opStep total) ([], [], 3, 3)
  pure (r.1, r.2.1, opHolders per)

/-! ### tax_report_jp -/
inductive JTx | i (t : InTx) | o (t : OutTx) | x (t : IntraTx)
def JTx.ts : JTx → Stamp | .i t => t.ts | .o t => t.ts | .x t => t.ts

structure JRow where
  sheet : String
  row : Nat
  month : Int
  day : Int
  typ : String
  pAmt : Option Rat
  pYen : Option Rat
  sAmt : Option Rat
  sYen : Option Rat      -- none for a donation (the cell holds a formatted string)
  fee : Rat

structure JSheet where
  name : String
  rows : List JRow
  prevRef : Option (String × Nat)      -- opening balance: sheet and row (the crypto cell; yen is the next row)
  closeRow : Nat                       -- row of the closing-balance crypto cell (1-based)
  asset : String := ""
  year : Int := 0

def jRowOf (sheet : String) (row : Nat) : JTx → Except String (Option JRow)
  | .i t =>
    let (_, m, d) := civilFromDays t.ts.day
    let yen := dmul (ofUnits t.amount) (ofUnits t.price)
    let fee := if gt13 t.fiatFee 0 then t.fiatFee else 0
    let r : JRow := ⟨sheet, row, m, d, t.typ.name, some (ofUnits t.amount), some yen,
      (if t.typ.isEarn then some 0 else none), (if t.typ.isEarn then some yen else none), fee⟩
    .ok (some r)
  | .o t =>
    let (_, m, d) := civilFromDays t.ts.day
    let fee := if gt13 (ofUnits t.fee) 0 then dmul (ofUnits t.fee) (ofUnits t.price) else if gt13 t.fiatFee 0 then t.fiatFee else 0
    let r : JRow := ⟨sheet, row, m, d, t.typ.name, none, none, some (ofUnits t.outWithFee),
      (if t.typ = .donate then none else some (dmul (ofUnits t.outNoFee) (ofUnits t.price))), fee⟩
    .ok (some r)
  | .x t =>
    let (_, m, d) := civilFromDays t.ts.day
    let f := dsub (ofUnits t.sent) (ofUnits t.recv)
    let y := dmul f (ofUnits t.price)
    if !(gt13 f 0) then .ok none else
    -- a fee whose yen value vanishes at 13 decimals makes the code write `None` into a cell
    if !(gt13 y 0) then .error "ValueError: invalid value: None" else
    let r : JRow := ⟨sheet, row, m, d, "fee", none, none, some f, some y, 0⟩
    .ok (some r)

/-- first-seen de-duplication -/
def dedup (l : List Int) : List Int := l.foldl (fun ys y => if ys.contains y then ys else ys ++ [y]) []

/-- the years the generator iterates over; `sortedYears = true` is the repaired behaviour (F5) -/
def jpYears (sortedYears : Bool) (all : List JTx) : List Int :=
  let ys := dedup (all.map (·.ts.year))
  if sortedYears then sortBy (fun a b => decide (a < b)) ys else ys

/-- rows of one asset-year sheet: one per transaction in time order, fee-less transfers skipped, consecutive from row 22 -/
def jpRows (name : String) : List JTx → Nat → Except String (List JRow)
  | [], _ => pure []
  | t :: ts, k => do
    match ← jRowOf name (k + 1) t with
    | some r => do let rest ← jpRows name ts (k + 1); pure (r :: rest)
    | none => jpRows name ts k

def jpSheetName (asset : String) (y : Int) : String := s!"{asset}_{y}"

def jpSheets (sortedYears : Bool) (asset : String) (all : List JTx) : List Int → Nat → Int → Except String (List JSheet)
  | [], _, _ => pure []
  | y :: ys, prevOff, prevYear => do
    let name := jpSheetName asset y
    let rows ← jpRows name (sortByTs (·.ts.us) (all.filter (fun t => t.ts.year == y))) 21
    let rowIndex := 21 + rows.length
    let prevRef := if prevOff = 0 then none else
      some (if sortedYears then jpSheetName asset prevYear else jpSheetName asset (y - 1), prevOff)
    let rest ← jpSheets sortedYears asset all ys (rowIndex + 9) y
    pure ({ name, rows, prevRef, closeRow := rowIndex + 9, asset, year := y } :: rest)

def jpAsset (sortedYears : Bool) (c : Computed) : Except String (List JSheet) :=
  let all : List JTx := c.ins.map JTx.i ++ c.outs.map JTx.o ++ c.intras.map JTx.x
  jpSheets sortedYears c.asset all (jpYears sortedYears all) 0 0

/-- one line of a year's summary sheet (`<year>_Summary`): the asset and the reference to the closing cells of its sheet of that year -/
structure JSumLine where
  year : Int
  row : Nat            -- 1-based row in the year's summary sheet
  asset : String
  sheet : String
  closeRow : Nat
deriving Repr, DecidableEq

/-- `__year_row_offset`: a year's summary sheet is created when the first asset-year sheet of that year is generated (rows from 8), and
    every asset-year sheet appends one line to the sheet of its year -/
def jpSummaryLines : List JSumLine → List JSheet → List JSumLine
  | acc, [] => acc
  | acc, s :: rest =>
    jpSummaryLines (acc ++ [⟨s.year, 8 + (acc.filter (fun l => l.year == s.year)).length, s.asset, s.name, s.closeRow⟩]) rest
/-- the summary lines of a run, from the asset-year sheets in generation order (assets in sorted order, each asset's years ascending) -/
def jpSummaries (shs : List JSheet) : List JSumLine := jpSummaryLines [] shs

end Rp2
