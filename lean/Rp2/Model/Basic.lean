namespace Rp2

inductive Method | fifo | lifo | hifo | lofo
deriving DecidableEq, Repr

structure Lot where
  ts : Int
  row : Nat
  price : Nat
  amount : Nat
deriving DecidableEq, Repr

/-- ranking key per method; smaller = taken first -/
def key (m : Method) (l : Lot) : Int × Int × Int :=
  match m with
  | .fifo => (0, l.ts, l.row)
  | .lifo => (0, -l.ts, -(l.row : Int))
  | .hifo => (-(l.price : Int), l.ts, l.row)
  | .lofo => ((l.price : Int), l.ts, l.row)

def lexLt (a b : Int × Int × Int) : Prop :=
  a.1 < b.1 ∨ (a.1 = b.1 ∧ (a.2.1 < b.2.1 ∨ (a.2.1 = b.2.1 ∧ a.2.2 < b.2.2)))

instance (a b : Int × Int × Int) : Decidable (lexLt a b) := by unfold lexLt; infer_instance

theorem lexLt_irrefl (a) : ¬ lexLt a a := by unfold lexLt; omega
theorem lexLt_trans {a b c} : lexLt a b → lexLt b c → lexLt a c := by unfold lexLt; omega
theorem lexLt_total (a b) : lexLt a b ∨ a = b ∨ lexLt b a := by
  unfold lexLt
  rcases a with ⟨a1, a2, a3⟩; rcases b with ⟨b1, b2, b3⟩
  simp only [Prod.mk.injEq]
  omega
theorem lexLt_asymm {a b} : lexLt a b → ¬ lexLt b a := by unfold lexLt; omega

/-- `better m a b`: lot `a` ranks strictly before lot `b` under method `m` -/
def better (m : Method) (a b : Lot) : Prop := lexLt (key m a) (key m b)
instance (m a b) : Decidable (better m a b) := by unfold better; infer_instance

/-- the lot table: `L i` for `i < N` -/
structure Lots where
  N : Nat
  L : Nat → Lot

/-- keys are injective on distinct (ts,row) pairs -/
theorem key_inj (m : Method) (a b : Lot) (h : key m a = key m b) : a.ts = b.ts ∧ a.row = b.row := by
  cases m <;> simp [key] at h <;> omega

/-! ## Abstract greedy specification -/

/-- lot `i` is a candidate: among the first `n` lots and not exhausted -/
def Avail (rem : Nat → Nat) (n i : Nat) : Prop := i < n ∧ 0 < rem i

def IsBest (m : Method) (L : Nat → Lot) (rem : Nat → Nat) (n i : Nat) : Prop :=
  Avail rem n i ∧ ∀ j, Avail rem n j → ¬ better m (L j) (L i)

/-- argmin over `i < n` with `rem i > 0` -/
def pick (m : Method) (L : Nat → Lot) (rem : Nat → Nat) : Nat → Option Nat
  | 0 => none
  | n+1 =>
    match pick m L rem n with
    | none => if 0 < rem n then some n else none
    | some j => if 0 < rem n ∧ better m (L n) (L j) then some n else some j

theorem pick_none {m L rem} : ∀ n, pick m L rem n = none → ∀ j, ¬ Avail rem n j := by
  intro n
  induction n with
  | zero => intro _ j h; exact absurd h.1 (Nat.not_lt_zero _)
  | succ n ih =>
    intro h j hj
    unfold pick at h
    split at h
    · rename_i hp
      split at h
      · cases h
      · rename_i hr
        rcases Nat.lt_succ_iff_lt_or_eq.mp hj.1 with hlt | heq
        · exact ih hp j ⟨hlt, hj.2⟩
        · subst heq; exact hr hj.2
    · split at h <;> cases h

theorem pick_some {m L rem} : ∀ n i, pick m L rem n = some i → IsBest m L rem n i := by
  intro n
  induction n with
  | zero => intro i h; cases h
  | succ n ih =>
    intro i h
    unfold pick at h
    split at h
    · rename_i hp
      split at h
      · rename_i hr
        cases h
        refine ⟨⟨Nat.lt_succ_self _, hr⟩, ?_⟩
        intro j hj
        rcases Nat.lt_succ_iff_lt_or_eq.mp hj.1 with hlt | heq
        · exact absurd ⟨hlt, hj.2⟩ (pick_none n hp j)
        · subst heq; exact lexLt_irrefl _
      · cases h
    · rename_i j0 hp
      have hb := ih j0 hp
      split at h
      · rename_i hc
        cases h
        refine ⟨⟨Nat.lt_succ_self _, hc.1⟩, ?_⟩
        intro j hj
        rcases Nat.lt_succ_iff_lt_or_eq.mp hj.1 with hlt | heq
        · intro hbj
          exact hb.2 j ⟨hlt, hj.2⟩ (lexLt_trans hbj hc.2)
        · subst heq; exact lexLt_irrefl _
      · rename_i hc
        cases h
        refine ⟨⟨Nat.lt_succ_of_lt hb.1.1, hb.1.2⟩, ?_⟩
        intro j hj
        rcases Nat.lt_succ_iff_lt_or_eq.mp hj.1 with hlt | heq
        · exact hb.2 j ⟨hlt, hj.2⟩
        · subst heq
          intro hbj
          exact hc ⟨hj.2, hbj⟩

end Rp2
