import Rp2.Model.Report
namespace Rp2

/-- sheet of a transaction type (`_TYPE_TO_SHEET`); `ieLost = false` is the shipped IE table (no LOST) -/
def sheetOf (lostMapped : Bool) : TxType → Option String
  | .airdrop => some "Airdrops" | .sell => some "Capital Gains" | .donate => some "Donations" | .gift => some "Gifts"
  | .hardfork => some "Hard Forks" | .income => some "Income" | .interest => some "Interest"
  | .fee => some "Investment Expenses" | .move => some "Investment Expenses"
  | .lost => if lostMapped then some "Investment Expenses" else none
  | .mining => some "Mining" | .staking => some "Staking" | .wages => some "Wages"
  | .buy => none

def allSheets : List String :=
  ["Airdrops", "Capital Gains", "Donations", "Gifts", "Hard Forks", "Income", "Interest", "Investment Expenses", "Mining", "Staking", "Wages"]

def typesOf (lostMapped : Bool) (sheet : String) : List TxType :=
  [TxType.airdrop, .sell, .donate, .gift, .hardfork, .income, .interest, .fee, .lost, .move, .mining, .staking, .wages].filter
    (fun t => sheetOf lostMapped t == some sheet)

structure TRow where
  sheet : String
  row : Nat            -- 1-based
  asset : String
  amt : Rat
  proceeds : Rat
  cost : Option Rat
  gain : Rat
  long : Bool
  sold : Int × Int × Int        -- local date of the event
  acquired : Option (Int × Int × Int)
  evK : Nat
  evN : Nat
  lotK : Option Nat
  lotN : Option Nat

structure TState where
  idx : List (String × Nat)       -- next free 0-based row per sheet
  cap : List (String × Nat)       -- rows available per sheet

def getS (l : List (String × Nat)) (k : String) : Nat := ((l.find? (·.1 == k)).map (·.2)).getD 0
def setS (l : List (String × Nat)) (k : String) (v : Nat) : List (String × Nat) := l.map (fun p => if p.1 == k then (k, v) else p)

def mkTRow (period : Int) (asset : String) (sheet : String) (r : Nat) (n : Numbered) : TRow :=
  { sheet
    row := r + 1
    asset
    amt := ofUnits n.f.amt
    proceeds := n.f.proceeds
    cost := n.f.lot.map (fun _ => n.f.cost)
    gain := n.f.gain
    long := n.f.isLong period
    sold := civilFromDays n.f.ev.ts.day
    acquired := n.f.lot.map (fun l => civilFromDays l.ts.day)
    evK := n.evK + 1
    evN := n.evN
    lotK := n.lotK.map (· + 1)
    lotN := n.lotN }

/-- the fractions of all assets in generation order, each with its asset -/
def allFracs (cs : List Computed) : List (String × Numbered) := cs.flatMap (fun c => c.fracs.map (fun n => (c.asset, n)))

/-- routing with one row counter per sheet shared by all assets: every fraction gets the next free row of the sheet of its type
    (fractions whose type has no sheet are skipped here and make the generator fail, see `taxReport`) -/
def routeFracs (lostMapped : Bool) (period : Int) : List (String × Nat) → List (String × Numbered) → List TRow × List (String × Nat)
  | idx, [] => ([], idx)
  | idx, (a, n) :: t =>
    match sheetOf lostMapped n.f.ev.typ with
    | none => routeFracs lostMapped period idx t
    | some s =>
      let r := getS idx s
      let (rows, idx') := routeFracs lostMapped period (setS idx s (r + 1)) t
      (mkTRow period a s r n :: rows, idx')

/-- rows available on a sheet after `append_rows(MIN_ROWS + count + 1)` for every type of the sheet and every asset so far -/
def capacityAfter (lostMapped : Bool) (templateRows : Nat) (cs : List Computed) (s : String) : Nat :=
  templateRows + (cs.map fun c => ((typesOf lostMapped s).map fun t => 20 + (c.fracs.filter (fun f => f.f.ev.typ == t)).length + 1).sum).sum

/-- `tax_report_us/ie.generate`: fails with a `KeyError` when a fraction's type has no sheet (F11: LOST in the shipped IE map) and
    with an `IndexError` if a sheet were too small; otherwise every fraction is written and unused sheets are removed -/
def taxReport (lostMapped : Bool) (period : Int) (templateRows : Nat) (cs : List Computed) : Except String (List TRow × List String) :=
  if (allFracs cs).any (fun p => (sheetOf lostMapped p.2.f.ev.typ).isNone) then .error "KeyError: transaction type without a sheet" else
  let (rows, idx) := routeFracs lostMapped period (allSheets.map (·, 7)) (allFracs cs)
  if rows.any (fun r => decide (capacityAfter lostMapped templateRows cs r.sheet < r.row)) then .error "IndexError: tax report sheet too small" else
  .ok (rows, allSheets.filter (fun s => getS idx s ≠ 7))

end Rp2
