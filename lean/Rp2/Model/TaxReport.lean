import Rp2.Model.Report
namespace Rp2

/-- sheet of a transaction type (`_TYPE_TO_SHEET`); `ieLost = false` is the shipped IE table (no LOST) -/
def sheetOf (lostMapped : Bool) : TxType → Option String
  | .airdrop => some "Airdrops" | .sell => some "Capital Gains" | .donate => some "Donations" | .gift => some "Gifts"
  | .hardfork => some "Hard Forks" | .income => some "Income" | .interest => some "Interest"
  | .fee => some "Investment Expenses" | .move => some "Investment Expenses"
  | .lost => if lostMapped then some "Investment Expenses" else none
  | .mining => some "Mining" | .staking => some "Staking" | .wages => some "Wages"
  | .buy => none

def allSheets : List String :=
  ["Airdrops", "Capital Gains", "Donations", "Gifts", "Hard Forks", "Income", "Interest", "Investment Expenses", "Mining", "Staking", "Wages"]

def typesOf (lostMapped : Bool) (sheet : String) : List TxType :=
  [TxType.airdrop, .sell, .donate, .gift, .hardfork, .income, .interest, .fee, .lost, .move, .mining, .staking, .wages].filter
    (fun t => sheetOf lostMapped t == some sheet)

structure TRow where
  sheet : String
  row : Nat            -- 1-based
  asset : String
  amt : Rat
  proceeds : Rat
  cost : Option Rat
  gain : Rat
  long : Bool
  sold : Int × Int × Int        -- local date of the event
  acquired : Option (Int × Int × Int)
  evK : Nat
  evN : Nat
  lotK : Option Nat
  lotN : Option Nat

structure TState where
  idx : List (String × Nat)       -- next free 0-based row per sheet
  cap : List (String × Nat)       -- rows available per sheet

def getS (l : List (String × Nat)) (k : String) : Nat := ((l.find? (·.1 == k)).map (·.2)).getD 0
def setS (l : List (String × Nat)) (k : String) (v : Nat) : List (String × Nat) := l.map (fun p => if p.1 == k then (k, v) else p)

def taxReport (lostMapped : Bool) (period : Int) (templateRows : Nat) (cs : List Computed) : Except String (List TRow × List String) := do
  let st0 : TState := { idx := allSheets.map (·, 7), cap := allSheets.map (·, templateRows) }
  let (rows, st) ← cs.foldlM (fun (acc : List TRow × TState) c => do
    -- append_rows(MIN_ROWS + count + 1) per type of every sheet
    let cap := acc.2.cap.map fun (s, n) =>
      (s, n + ((typesOf lostMapped s).map fun t => 20 + (c.fracs.filter (fun f => f.f.ev.typ == t)).length + 1).foldl (· + ·) 0)
    let (rs, idx) ← c.fracs.foldlM (fun (a : List TRow × List (String × Nat)) n => do
      match sheetOf lostMapped n.f.ev.typ with
      | none => throw s!"KeyError: {n.f.ev.typ.name}"
      | some s =>
        let r := getS a.2 s
        if r ≥ getS cap s then throw "IndexError: tax report sheet too small"
        let row : TRow :=
          { sheet := s
            row := r + 1
            asset := c.asset
            amt := ofUnits n.f.amt
            proceeds := n.f.proceeds
            cost := n.f.lot.map (fun _ => n.f.cost)
            gain := n.f.gain
            long := n.f.isLong period
            sold := civilFromDays n.f.ev.ts.day
            acquired := n.f.lot.map (fun l => civilFromDays l.ts.day)
            evK := n.evK + 1
            evN := n.evN
            lotK := n.lotK.map (· + 1)
            lotN := n.lotN }
        pure (a.1 ++ [row], setS a.2 s (r + 1))) ([], acc.2.idx)
    pure (acc.1 ++ rs, { idx, cap })) ([], st0)
  -- sheets that received no row are removed
  pure (rows, allSheets.filter (fun s => getS st.idx s ≠ 7))

end Rp2
