import Rp2.Model.Tx
import Rp2.Model.Engine
import Rp2.Model.Group
namespace Rp2

/-- schedule: (year, method) pairs; slot of a year = index of the greatest entry year ≤ it -/
def slotOf (sched : List (Int × Method)) (year : Int) : Option Nat :=
  let idx := (List.range sched.length).filter (fun i => decide ((sched.getD i (0, .fifo)).1 ≤ year))
  -- entries need not be sorted: greatest year wins
  idx.foldl (fun acc i => match acc with
    | none => some i
    | some j => if (sched.getD j (0, .fifo)).1 < (sched.getD i (0, .fifo)).1 then some i else some j) none

structure Fraction where
  ev : TaxEv
  lot : Option InTx
  amt : Int            -- units

def Fraction.proceeds (f : Fraction) : Rat := ddiv (dmul f.ev.fiatTaxable (ofUnits f.amt)) (ofUnits f.ev.amount)
def Fraction.cost (f : Fraction) : Rat :=
  match f.lot with
  | none => 0
  | some l => ddiv (dmul l.fiatWithFee (ofUnits f.amt)) (ofUnits l.amount)
def Fraction.gain (f : Fraction) : Rat := dsub f.proceeds f.cost
def Fraction.isLong (period : Int) (f : Fraction) : Bool :=
  match f.lot with
  | none => false
  | some l => decide (period ≤ Int.fdiv (f.ev.ts.us - l.ts.us) 86400000000)

inductive RunErr | exhausted | noMethod | badAmount
deriving Repr

/-- an acquisition as the engine sees it -/
def lotOf (l : InTx) : Lot := ⟨l.ts.us, l.row.toNat, l.price.toNat, l.amount.toNat⟩

/-- the engine's context for a time-sorted lot list and a method schedule -/
def lotCtx (sched : List (Int × Method)) (lots : List InTx) : Ctx :=
  { L := fun i => match lots[i]? with
      | some l => lotOf l
      | none => ⟨0, 0, 0, 0⟩,
    bound := fun t => (lots.filter (fun l => decide (l.ts.us ≤ t))).length,
    meth := fun s => (sched.getD s (0, .fifo)).2 }

/-- taxable events as engine events: instant, schedule slot of the local year, amount, income flag -/
def engineEvents (sched : List (Int × Method)) : List TaxEv → Option (List Event)
  | [] => some []
  | e :: t =>
    match slotOf sched e.ts.year, engineEvents sched t with
    | some s, some r => some (⟨e.ts.us, s, e.amount.toNat, e.earn⟩ :: r)
    | _, _ => none

/-- engine fractions (indices) back to transactions -/
def decodeFracs (lots : List InTx) (evs : List TaxEv) (fs : List Frac) : List Fraction :=
  fs.filterMap fun f =>
    match evs[f.ev]? with
    | none => none
    | some e => some { ev := e, lot := f.lot.bind (fun i => lots[i]?), amt := f.amt }

/-- `_create_unfiltered_gain_and_loss_set` on the model engine -/
def computeFractions (sched : List (Int × Method)) (ins : List InTx) (outs : List OutTx) (intras : List IntraTx) :
    Except RunErr (List Fraction) :=
  let lots := sortByTs (·.ts.us) ins
  let evs := taxableEvents ins outs intras
  -- amounts must be positive for the engine (the code raises a value error otherwise)
  if lots.any (fun l => decide (l.amount ≤ 0)) || evs.any (fun e => decide (e.amount ≤ 0)) then .error .badAmount else
  match engineEvents sched evs with
  | none => .error .noMethod
  | some es =>
    match runM (lotCtx sched lots) MSt.init none 0 es with
    | none => .error .exhausted
    | some fs => .ok (decodeFracs lots evs fs)

/-- `GainLossSet._sort_entries` numbering, as counts over the list cut at the to-date -/
def cutAt {α} (day : α → Int) (to : Option Int) (l : List α) : List α :=
  match to with
  | none => l
  | some t => l.takeWhile (fun x => decide (day x ≤ t))

structure Numbered where
  f : Fraction
  evK : Nat
  evN : Nat
  lotK : Option Nat
  lotN : Option Nat

def numberFractions (fs : List Fraction) : List Numbered :=
  let rec go (pre : List Fraction) : List Fraction → List Numbered
    | [] => []
    | f :: rest =>
      let evK := (pre.filter (fun g => g.ev.row == f.ev.row)).length
      let evN := (fs.filter (fun g => g.ev.row == f.ev.row)).length
      let sameLot (g : Fraction) : Bool := match g.lot, f.lot with
        | some a, some b => a.row == b.row
        | _, _ => false
      let lotK := f.lot.map (fun _ => (pre.filter sameLot).length)
      let lotN := f.lot.map (fun _ => (fs.filter sameLot).length)
      ⟨f, evK, evN, lotK, lotN⟩ :: go (pre ++ [f]) rest
  go [] fs

structure YKey where
  year : Int
  typ : TxType
  long : Bool
deriving DecidableEq

structure YSums where
  amt : Rat
  fiat : Rat
  cost : Rat
  gain : Rat

def YSums.add (s x : YSums) : YSums := ⟨dadd s.amt x.amt, dadd s.fiat x.fiat, dadd s.cost x.cost, dadd s.gain x.gain⟩
def YSums.zero : YSums := ⟨0, 0, 0, 0⟩
/-- the summary key of a fraction: local year of the *taxable event*, its type, long/short -/
def yearKey (period : Int) (f : Fraction) : YKey := ⟨f.ev.ts.year, f.ev.typ, f.isLong period⟩
def yearVal (f : Fraction) : YSums := ⟨ofUnits f.amt, f.proceeds, f.cost, f.gain⟩

/-- `_create_yearly_gain_loss_list`: insertion-ordered group-by with decimal running sums -/
def yearly (period : Int) (fs : List Fraction) : List (YKey × YSums) :=
  group YSums.add YSums.zero (fs.map (fun f => (yearKey period f, yearVal f)))

/-- balances: chronological replay of in + intra + out -/
inductive AnyTx | i (t : InTx) | x (t : IntraTx) | o (t : OutTx)
def AnyTx.ts : AnyTx → Stamp | .i t => t.ts | .x t => t.ts | .o t => t.ts

structure BalRow where
  acct : Nat
  acq : Int := 0
  sent : Int := 0
  recv : Int := 0
  fin : Int := 0

def updBal (bs : List BalRow) (a : Nat) (f : BalRow → BalRow) : List BalRow :=
  if bs.any (·.acct == a) then bs.map (fun b => if b.acct == a then f b else b) else bs ++ [f { acct := a }]

/-- below tolerance on the 10^-11 grid: quantize to 10 decimals is non-zero and the value is negative -/
def belowTol (units : Int) : Bool := decide (quant 10 (ofUnits units) ≠ 0) && decide (units < 0)

/-- one step of `BalanceSet.__init__`: update the four per-account figures; after a debit check the debited account -/
def balStep (allowNeg : Bool) (bs : List BalRow) (t : AnyTx) : Except Nat (List BalRow) :=
  match t with
  | .i t => .ok (updBal bs t.acct (fun b => { b with acq := b.acq + t.amount, fin := b.fin + t.amount }))
  | .x t =>
    let bs := updBal bs t.src (fun b => { b with sent := b.sent + t.sent })
    let bs := updBal bs t.dst (fun b => { b with recv := b.recv + t.recv })
    let bs := updBal bs t.src (fun b => { b with fin := b.fin - t.sent })
    let bs := updBal bs t.dst (fun b => { b with fin := b.fin + t.recv })
    match bs.find? (·.acct == t.src) with
    | some b => if belowTol b.fin && !allowNeg then .error t.src else .ok bs
    | none => .ok bs
  | .o t =>
    let bs := updBal bs t.acct (fun b => { b with sent := b.sent + t.outNoFee + t.fee, fin := b.fin - t.outNoFee - t.fee })
    match bs.find? (·.acct == t.acct) with
    | some b => if belowTol b.fin && !allowNeg then .error t.acct else .ok bs
    | none => .ok bs

/-- the transactions the balance replay sees, in its order: time-sorted `in ++ intra ++ out`, cut at the to-date -/
def balanceOrder (to : Option Int) (ins : List InTx) (outs : List OutTx) (intras : List IntraTx) : List AnyTx :=
  cutAt (·.ts.day) to (sortByTs (·.ts.us) (ins.map AnyTx.i ++ intras.map AnyTx.x ++ outs.map AnyTx.o))

def balances (allowNeg : Bool) (to : Option Int) (ins : List InTx) (outs : List OutTx) (intras : List IntraTx) :
    Except Nat (List BalRow) :=
  (balanceOrder to ins outs intras).foldlM (balStep allowNeg) []

def pricePerUnit (to : Option Int) (ins : List InTx) : Rat :=
  let l := cutAt (·.ts.day) to (sortByTs (·.ts.us) ins)
  match l with
  | [] => 0
  | _ =>
    let c := l.foldl (fun s t => dadd s (ofUnits t.amount)) 0
    let f := l.foldl (fun s t => dadd s t.fiatWithFee) 0
    ddiv f c

end Rp2
