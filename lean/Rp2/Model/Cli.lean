import Rp2.Model.TaxReport
import Rp2.Model.OtherReports
import Rp2.Model.Parser
import Rp2.Model.Ini
import Rp2.Gen.Countries
import Rp2.Gen.Templates
/-! The command-line layer (`rp2_main`): option handling, per-asset computation in sorted asset order, generators in execution
order with template lookup, exit status and the set of files written. Country facts and the template inventory come from the
tables regenerated from the source tree (`Rp2.Gen`). -/
namespace Rp2.Cli
open Rp2 Rp2.Gen

structure AssetIn where
  name : String
  ins : List InTx
  outs : List OutTx
  intras : List IntraTx

structure Options where
  script : String
  method : Option String := none
  lang : Option String := none
  fromD : Option Int := none
  toD : Option Int := none
  allowNeg : Bool := false
  only : Option String := none          -- `-a`
  pluginFlag : Bool := false            -- `-l`
  pfx : String := ""
  cfgSched : List (Int × String) := []  -- `[accounting_methods]` section, in file order
  knownLocales : List String := ["en", "en_IE", "es", "ja", "kl"]

inductive Report
  | full (rows : List RRow)
  | tax (rows : List TRow) (sheets : List String)
  | openPos (a : List OARow) (e : List OERow) (totals : List (String × Nat × String))
  | jp (sheets : List JSheet)

structure Outcome where
  exit : Nat
  stage : String                         -- "" when the run completed
  files : List (String × Report)         -- reports written, in order (file name without the output directory)
  legendMethod : String := ""

def methodOf? : String → Option Method
  | "fifo" => some .fifo | "lifo" => some .lifo | "hifo" => some .hifo | "lofo" => some .lofo | _ => none

def country? (script : String) := countries.find? (·.1 == script)

def genBase (g : String) : String := ((generatorBases.find? (·.1 == g)).map (·.2)).getD g
def hasTemplate (iso gen lang : String) : Bool :=
  templates.any fun t => t.1 == iso && t.2.1 == gen ++ "_" ++ lang && t.2.2.2

/-- generators in execution order: the generic package first (alphabetical), then the country package -/
def ordered (gens : List String) : List String :=
  (["open_positions", "rp2_full_report"].filter gens.contains) ++ (gens.filter (fun g => g.contains '.'))

/-- the Legend's accounting-method cell -/
def legendMethod (sched : List (Int × String)) : String :=
  match sched with
  | [(_, m)] => m.toUpper
  | _ =>
    let rec go (old : Int) : List (Int × String) → List String
      | [] => []
      | (y, m) :: t => (if y - old > 1 then s!"{old}->{y}:{m.toUpper}" else s!"{y}:{m.toUpper}") :: go y t
    ", ".intercalate (go 1970 sched)

def reject (stage : String) (code : Nat := 1) (files : List (String × Report) := []) : Outcome := { exit := code, stage, files }

def fileName (pfx mname base : String) : String := pfx ++ mname ++ "_" ++ base ++ ".ods"

/-- what a generator produces (or the error it raises) -/
def genReport (o : Options) (base : String) (period : Nat) (holderOf : Nat → String) (cs : List Computed) : Except String Report :=
  if base == "rp2_full_report" then (genFull true true holderOf period cs).map Report.full
  else if base == "open_positions" then
    (openPositions holderOf cs).map (fun (r : List OARow × List OERow × List String) =>
      Report.openPos r.1 r.2.1 (totalRows "A" r.2.2 r.1.length ++ totalRows "E" r.2.2 r.2.1.length))
  else if base == "tax_report_jp" then
    (if o.fromD.isSome && o.toD.isSome then Except.error "jp: from and to"
     else (cs.mapM (jpAsset true)).map (fun (l : List (List JSheet)) => Report.jp l.flatten))
  else (taxReport true period 102 cs).map (fun (r : List TRow × List String) => Report.tax r.1 r.2)

/-- one report generator: template lookup, generation, file written -/
def genStep (o : Options) (iso lang mname : String) (period : Nat) (holderOf : Nat → String) (cs : List Computed) (acc : Outcome) (g : String) : Outcome :=
  if acc.exit ≠ 0 then acc else
  if !hasTemplate iso (genBase g) lang then { acc with exit := 1, stage := s!"no template for {g}" } else
  match genReport o (genBase g) period holderOf cs with
  | .error e => { acc with exit := 1, stage := s!"{g}: {e}" }
  | .ok rep => { acc with files := acc.files ++ [(fileName o.pfx mname (genBase g), rep)] }

def badMethod (o : Options) (methods : List String) : Bool := match o.method with | some m => !methods.contains m | none => false
def badWindow (o : Options) : Bool := match o.fromD, o.toD with | some f, some t => decide (t < f) | _, _ => false
def scheduleOf (o : Options) (defMethod : String) : List (Int × String) := if !o.cfgSched.isEmpty then o.cfgSched else [(1970, o.method.getD defMethod)]
def methodName (schedS : List (Int × String)) : String := match schedS with | [(_, m)] => m | _ => "mixed"
def assetNames (o : Options) (cfgAssets : List String) : List String := match o.only with | some a => [a] | none => sortBy (fun a b => decide (a < b)) cfgAssets
/-- every asset is parsed and computed before any report is generated -/
def computeAll (o : Options) (acctName : Nat → String) (period : Nat) (sched : List (Int × Method)) (names : List String) (sheets : List AssetIn) : Except String (List Computed) :=
  names.mapM fun a =>
    match sheets.find? (·.name == a) with
    | none => Except.error s!"sheet {a} missing"
    | some s => compute a acctName (period : Int) o.allowNeg o.fromD o.toD sched s.ins s.outs s.intras

def run (o : Options) (acctName holderOf : Nat → String) (cfgAssets : List String) (sheets : List AssetIn) : Outcome :=
  match country? o.script with
  | none => reject "unknown entry point"
  | some (_, iso, period, defMethod, methods, gens, defLang) =>
    if badMethod o methods then reject "argparse: invalid method" 2 else
    if !o.knownLocales.contains (o.lang.getD defLang) then reject "language" else
    if badWindow o then reject "from > to" else
    if o.method.isSome && !o.cfgSched.isEmpty then reject "method given twice" else
    match (scheduleOf o defMethod).mapM (fun p => (methodOf? p.2).map (fun m => (p.1, m))) with
    | none => reject "unknown method"
    | some sched =>
      if o.pluginFlag then reject "-l deprecated" else
      if (assetNames o cfgAssets).any (fun a => !cfgAssets.contains a) then reject "unknown asset" else
      match computeAll o acctName period sched (assetNames o cfgAssets) sheets with
      | .error e => reject s!"input: {e}"
      | .ok cs =>
        { (ordered gens).foldl (genStep o iso (o.lang.getD defLang) (methodName (scheduleOf o defMethod)) period holderOf cs) { exit := 0, stage := "", files := [] }
          with legendMethod := legendMethod (scheduleOf o defMethod) }

/-- account numbering used when the input comes from sheets: exchange index × 1000 + holder index -/
def acctOf (cfg : Config) (ex ho : String) : Nat := cfg.exchanges.idxOf ex * 1000 + cfg.holders.idxOf ho
def acctNameOf (cfg : Config) (i : Nat) : String := s!"{cfg.exchanges.getD (i / 1000) ""}_{cfg.holders.getD (i % 1000) ""}"
def holderOfAcct (cfg : Config) (i : Nat) : String := cfg.holders.getD (i % 1000) ""

/-- one asset's sheet parsed; the artificial-id counter (second component) is shared by all assets of the run -/
def parseStep (cfg : Config) (lookup : String → Option (List (List Cell))) (acc : List AssetIn × Nat) (a : String) : Except String (List AssetIn × Nat) :=
  match lookup a with
  | none => Except.error s!"sheet {a} missing"
  | some g => match parseSheet cfg a (acctOf cfg) g acc.2 with
    | .error _ => Except.error s!"parse error in {a}"
    | .ok p => Except.ok (acc.1 ++ [(⟨a, p.ins, p.outs, p.intras⟩ : AssetIn)], acc.2 + (p.outs.filter (fun (t : OutTx) => decide (t.row < 0))).length)

/-- every asset to process, in processing order, parsed from its sheet (`parse_ods` per asset); fails at the first sheet that is missing
    or does not parse -/
def parseAll (o : Options) (cfg : Config) (lookup : String → Option (List (List Cell))) : Except String (List AssetIn) :=
  ((assetNames o cfg.assets).foldlM (parseStep cfg lookup) ([], 0)).map (fun (r : List AssetIn × Nat) => r.1)

/-- the whole run from spreadsheet cells, the sheets given as a lookup by name: every configured asset's sheet is parsed (`parseSheet`),
    then `run` -/
def runCellsWith (o : Options) (cfg : Config) (lookup : String → Option (List (List Cell))) : Outcome :=
  match parseAll o cfg lookup with
  | .error e =>
    -- option errors are reported before the input is read
    let pre := run o (acctNameOf cfg) (holderOfAcct cfg) cfg.assets []
    if pre.stage.startsWith "input" then reject s!"input: {e}" else pre
  | .ok sheets => run o (acctNameOf cfg) (holderOfAcct cfg) cfg.assets sheets

/-- the sheets of the workbook in file order: a sheet is found by its name -/
def runCells (o : Options) (cfg : Config) (grids : List (String × List (List Cell))) : Outcome :=
  runCellsWith o cfg (fun a => (grids.find? (·.1 == a)).map (·.2))

/-- the rejections that precede the reading of the configuration file (argparse, language, `from_date > to_date`) -/
def preConfig (o : Options) : Option Outcome :=
  match country? o.script with
  | none => some (reject "unknown entry point")
  | some (_, _, _, _, methods, _, defLang) =>
    if badMethod o methods then some (reject "argparse: invalid method" 2) else
    if !o.knownLocales.contains (o.lang.getD defLang) then some (reject "language") else
    if badWindow o then some (reject "from > to") else none

/-- the whole run from the configuration file's sections (`none` = `configparser` itself refused the file: duplicate option, no section
    header, …) and the spreadsheet cells: `Configuration.__init__` (`Ini.ofIni`), then `runCells` with the header maps, the asset /
    exchange / holder lists and the `[accounting_methods]` schedule it produced -/
def runIni (o : Options) (ini : Option (List Ini.Section)) (grids : List (String × List (List Cell))) : Outcome :=
  match preConfig o with
  | some r => r
  | none =>
    match ini with
    | none => reject "configuration: not a readable INI file"
    | some secs =>
      match Ini.ofIni secs with
      | .error e => reject s!"configuration: {e}"
      | .ok c => runCells { o with cfgSched := c.methods } c.cfg grids

end Rp2.Cli
