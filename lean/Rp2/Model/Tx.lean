import Rp2.Model.Dec
import Rp2.Model.Civil
namespace Rp2

/-- 10^-11 grid unit -/
def U : Rat := (100000000000 : Nat)
def ofUnits (n : Int) : Rat := (n : Rat) / U

def dadd (a b : Rat) : Rat := rnd 31 (a + b)
def dsub (a b : Rat) : Rat := rnd 31 (a - b)
def dmul (a b : Rat) : Rat := rnd 31 (a * b)
def ddiv (a b : Rat) : Rat := rnd 31 (a / b)

inductive TxType
  | airdrop | buy | donate | fee | gift | hardfork | income | interest | lost | mining | move | sell | staking | wages
deriving DecidableEq, Repr

def TxType.isEarn : TxType → Bool
  | .airdrop | .hardfork | .income | .interest | .mining | .staking | .wages => true
  | _ => false

def TxType.name : TxType → String
  | .airdrop => "airdrop" | .buy => "buy" | .donate => "donate" | .fee => "fee" | .gift => "gift"
  | .hardfork => "hardfork" | .income => "income" | .interest => "interest" | .lost => "lost"
  | .mining => "mining" | .move => "move" | .sell => "sell" | .staking => "staking" | .wages => "wages"

def TxType.ofString? (s : String) : Option TxType :=
  [TxType.airdrop, .buy, .donate, .fee, .gift, .hardfork, .income, .interest, .lost, .mining, .move, .sell, .staking, .wages].find? (·.name == s)

structure Stamp where
  us : Int
  off : Int
deriving Repr

def Stamp.day (s : Stamp) : Int := localDay s.us s.off
def Stamp.year (s : Stamp) : Int := localYear s.us s.off

/-- in-transaction after construction (all amounts in grid units; fiat fields are decimals) -/
structure InTx where
  row : Int
  ts : Stamp
  acct : Nat
  typ : TxType
  price : Int          -- units
  amount : Int         -- crypto_in, units
  fiatFee : Rat
  fiatNoFee : Rat
  fiatWithFee : Rat

structure OutTx where
  row : Int
  ts : Stamp
  acct : Nat
  typ : TxType
  price : Int
  outNoFee : Int
  fee : Int
  outWithFee : Int
  fiatNoFee : Rat
  fiatFee : Rat

structure IntraTx where
  row : Int
  ts : Stamp
  src : Nat
  dst : Nat
  price : Int
  sent : Int
  recv : Int
  fiatFee : Rat

/-- `InTransaction.__init__` derivations (crypto fee already split off by the parser) -/
def mkIn (row : Int) (ts : Stamp) (acct : Nat) (typ : TxType) (price amount : Int)
    (fiatFee? fiatNoFee? fiatWithFee? : Option Int) : InTx :=
  let fiatFee := match fiatFee? with | some f => ofUnits f | none => 0
  let fiatNoFee := match fiatNoFee? with | some f => ofUnits f | none => dmul (ofUnits amount) (ofUnits price)
  let fiatWithFee := match fiatWithFee? with | some f => ofUnits f | none => dadd fiatNoFee fiatFee
  { row, ts, acct, typ, price, amount, fiatFee, fiatNoFee, fiatWithFee }

def mkOut (row : Int) (ts : Stamp) (acct : Nat) (typ : TxType) (price outNoFee fee : Int)
    (outWithFee? fiatNoFee? fiatFee? : Option Int) : OutTx :=
  let outWithFee := match outWithFee? with | some w => w | none => outNoFee + fee
  let fiatNoFee := match fiatNoFee? with | some f => ofUnits f | none => dmul (ofUnits outNoFee) (ofUnits price)
  let fiatFee := match fiatFee? with | some f => ofUnits f | none => dmul (ofUnits fee) (ofUnits price)
  { row, ts, acct, typ, price, outNoFee, fee, outWithFee, fiatNoFee, fiatFee }

def mkIntra (row : Int) (ts : Stamp) (src dst : Nat) (price sent recv : Int) : IntraTx :=
  { row, ts, src, dst, price, sent, recv, fiatFee := dmul (ofUnits (sent - recv)) (ofUnits price) }

/-- a taxable event, uniformly -/
structure TaxEv where
  row : Int
  ts : Stamp
  typ : TxType
  cls : Nat            -- 0 = IN, 1 = OUT, 2 = INTRA
  earn : Bool
  amount : Int         -- crypto_balance_change, units
  fiatTaxable : Rat
  price : Int

def InTx.toEv (t : InTx) : TaxEv :=
  { row := t.row, ts := t.ts, typ := t.typ, cls := 0, earn := true, amount := t.amount, fiatTaxable := t.fiatWithFee, price := t.price }
def OutTx.toEv (t : OutTx) : TaxEv :=
  { row := t.row, ts := t.ts, typ := t.typ, cls := 1, earn := false, amount := t.outWithFee,
    fiatTaxable := if t.typ = .fee then t.fiatFee else t.fiatNoFee, price := t.price }
def IntraTx.toEv (t : IntraTx) : TaxEv :=
  { row := t.row, ts := t.ts, typ := .move, cls := 2, earn := false, amount := t.sent - t.recv, fiatTaxable := t.fiatFee, price := t.price }

/-- stable time sort (ties keep list order) -/
def sortByTs {α} (ts : α → Int) (l : List α) : List α := l.mergeSort (fun a b => decide (ts a ≤ ts b))

/-- `RP2Decimal.__gt__`: the difference is quantised to 13 decimals before comparing -/
def gt13 (a b : Rat) : Bool := decide (0 < quant 13 (dsub a b))
def eq13 (a b : Rat) : Bool := decide (quant 13 (dsub a b) = 0)

def taxableEvents (ins : List InTx) (outs : List OutTx) (intras : List IntraTx) : List TaxEv :=
  sortByTs (·.ts.us)
    ((ins.filter (·.typ.isEarn)).map InTx.toEv ++ outs.map OutTx.toEv ++
     (intras.filter (fun t => gt13 t.fiatFee 0)).map IntraTx.toEv)

end Rp2
