import Rp2.Model.Machine
namespace Rp2

structure Event where
  ts : Int
  slot : Nat
  amount : Nat
  earn : Bool
deriving Repr

structure Frac where
  ev : Nat
  lot : Option Nat
  amt : Nat
deriving Repr, DecidableEq

structure Ctx where
  L : Nat → Lot
  bound : Int → Nat          -- number of lots acquired at or before a timestamp
  meth : Nat → Method        -- accounting method of a schedule slot

/-! ### FIFO seek (chronological scan with from_index advance) -/
def seekFifo (L : Nat → Lot) (p : Partial) : (fuel : Nat) → (f t : Nat) → Option (Nat × Nat) × Nat × Partial
  | 0, f, _ => (none, f, p)
  | fuel+1, f, t =>
    if f ≤ t then
      if 0 < p.amt L f then (some (f, p.amt L f), f, p.set f 0)
      else seekFifo L p fuel (f+1) t
    else (none, f, p)

theorem seekFifo_some {L p} : ∀ fuel f t i a f2 p2, seekFifo L p fuel f t = (some (i, a), f2, p2) →
    f ≤ i ∧ i ≤ t ∧ a = p.amt L i ∧ 0 < a ∧ p2 = p.set i 0 ∧ f2 = i ∧ (∀ j, f ≤ j → j < i → ¬ 0 < p.amt L j) := by
  intro fuel
  induction fuel with
  | zero => intro f t i a f2 p2 h; simp [seekFifo] at h
  | succ n ih =>
    intro f t i a f2 p2 h
    unfold seekFifo at h
    split at h
    · rename_i hft
      split at h
      · rename_i hpos
        simp only [Prod.mk.injEq, Option.some.injEq] at h
        obtain ⟨⟨rfl, rfl⟩, rfl, rfl⟩ := h
        exact ⟨Nat.le_refl _, hft, rfl, hpos, rfl, rfl, by intro j h1 h2; omega⟩
      · rename_i hz
        obtain ⟨h1, h2, h3, h4, h5, h6, h7⟩ := ih (f+1) t i a f2 p2 h
        refine ⟨by omega, h2, h3, h4, h5, h6, ?_⟩
        intro j hj1 hj2
        by_cases hjf : j = f
        · subst hjf; exact hz
        · exact h7 j (by omega) hj2
    · simp at h

theorem seekFifo_none {L p} : ∀ fuel f t f2 p2, t + 1 - f ≤ fuel → seekFifo L p fuel f t = (none, f2, p2) →
    (∀ j, f ≤ j → j ≤ t → ¬ 0 < p.amt L j) ∧ p2 = p := by
  intro fuel
  induction fuel with
  | zero =>
    intro f t f2 p2 hf h
    simp [seekFifo] at h
    exact ⟨by intro j h1 h2; omega, h.2.symm⟩
  | succ n ih =>
    intro f t f2 p2 hf h
    unfold seekFifo at h
    split at h
    · rename_i hft
      split at h
      · simp at h
      · rename_i hz
        obtain ⟨h1, h2⟩ := ih (f+1) t f2 p2 (by omega) h
        refine ⟨?_, h2⟩
        intro j hj1 hj2
        by_cases hjf : j = f
        · subst hjf; exact hz
        · exact h1 j (by omega) hj2
    · rename_i hft
      simp at h
      exact ⟨by intro j h1 h2; omega, h.2.symm⟩

/-! ### Engine state -/
structure Cand where
  fromIdx : Nat := 0
  toIdx : Nat := 0
  heap : List Nat := []

structure MSt where
  p : Partial
  cands : Nat → Cand
  cur : Option (Nat × Nat)

def updCand (cs : Nat → Cand) (s : Nat) (c : Cand) : Nat → Cand := fun s' => if s' = s then c else cs s'

/-- `get_acquired_lot_for_taxable_event`: `none` = AcquiredLotsExhaustedException -/
def seekFor (ctx : Ctx) (st : MSt) (e : Event) : Option MSt :=
  let n := ctx.bound e.ts
  if n = 0 then none else
  let t := n - 1
  let c := st.cands e.slot
  match ctx.meth e.slot with
  | .fifo =>
    match seekFifo ctx.L st.p (t + 1 - c.fromIdx) c.fromIdx t with
    | (some ia, f', p') => some { p := p', cands := updCand st.cands e.slot { c with fromIdx := f', toIdx := t }, cur := some ia }
    | (none, _, _) => none
  | m =>
    let h := List.range' c.toIdx (t + 1 - c.toIdx) ++ c.heap
    match seekHeap m ctx.L st.p h.length h with
    | (some ia, h', p') => some { p := p', cands := updCand st.cands e.slot { c with toIdx := t, heap := h' }, cur := some ia }
    | (none, _, _) => none

def restore (p : Partial) : Option (Nat × Nat) → Partial
  | none => p
  | some (l, r) => p.set l r

/-- arrival of the next taxable event (get_next_taxable_event_and_amount + wrapper) -/
def arrive (ctx : Ctx) (st : MSt) (prev : Option Int) (e : Event) : Option MSt :=
  if (match prev with | some t => decide (t < e.ts) | none => false) then
    seekFor ctx { st with p := restore st.p st.cur, cur := none } e
  else
    match st.cur with
    | none => seekFor ctx st e
    | some (_, r) => if r = 0 then seekFor ctx { st with cur := none } e else some st

/-- the three-way split of `_create_unfiltered_gain_and_loss_set` for one disposal -/
def consume (ctx : Ctx) (e : Event) (k : Nat) : (fuel : Nat) → MSt → (need : Nat) → Option (List Frac × MSt)
  | 0, _, _ => none
  | fuel+1, st, need =>
    match st.cur with
    | none => none
    | some (l, r) =>
      if need ≤ r then some ([⟨k, some l, need⟩], { st with cur := some (l, r - need) })
      else
        match seekFor ctx { st with cur := none } e with
        | none => none
        | some st' =>
          match consume ctx e k fuel st' (need - r) with
          | none => none
          | some (fs, st'') => some (⟨k, some l, r⟩ :: fs, st'')

def stepEvent (ctx : Ctx) (st : MSt) (prev : Option Int) (k : Nat) (e : Event) : Option (List Frac × MSt) :=
  match arrive ctx st prev e with
  | none => none
  | some st1 =>
    if e.earn then some ([⟨k, none, e.amount⟩], st1)
    else consume ctx e k (ctx.bound e.ts + 1) st1 e.amount

def runM (ctx : Ctx) : MSt → Option Int → Nat → List Event → Option (List Frac)
  | _, _, _, [] => some []
  | st, prev, k, e :: es =>
    match stepEvent ctx st prev k e with
    | none => none
    | some (fs, st') =>
      match runM ctx st' (some e.ts) (k+1) es with
      | none => none
      | some rest => some (fs ++ rest)

/-! ### Greedy specification -/
def updRem (rem : Nat → Nat) (i v : Nat) : Nat → Nat := fun j => if j = i then v else rem j

def specConsume (ctx : Ctx) (m : Method) (n k : Nat) : (fuel : Nat) → (Nat → Nat) → (need : Nat) → Option (List Frac × (Nat → Nat))
  | 0, _, _ => none
  | fuel+1, rem, need =>
    match pick m ctx.L rem n with
    | none => none
    | some i =>
      if need ≤ rem i then some ([⟨k, some i, need⟩], updRem rem i (rem i - need))
      else
        match specConsume ctx m n k fuel (updRem rem i 0) (need - rem i) with
        | none => none
        | some (fs, rem') => some (⟨k, some i, rem i⟩ :: fs, rem')

def specEvent (ctx : Ctx) (rem : Nat → Nat) (k : Nat) (e : Event) : Option (List Frac × (Nat → Nat)) :=
  let n := ctx.bound e.ts
  let m := ctx.meth e.slot
  match pick m ctx.L rem n with
  | none => none
  | some _ =>
    if e.earn then some ([⟨k, none, e.amount⟩], rem)
    else specConsume ctx m n k (n + 1) rem e.amount

def runS (ctx : Ctx) : (Nat → Nat) → Nat → List Event → Option (List Frac)
  | _, _, [] => some []
  | rem, k, e :: es =>
    match specEvent ctx rem k e with
    | none => none
    | some (fs, rem') =>
      match runS ctx rem' (k+1) es with
      | none => none
      | some rest => some (fs ++ rest)

/-- initial engine state -/
def MSt.init : MSt := { p := fun _ => none, cands := fun _ => {}, cur := none }

end Rp2
