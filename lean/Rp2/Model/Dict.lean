import Rp2.Model.Pipeline
/-! # Python `dict` with insertion order, and the list iterator protocol
Support definitions for the *translated* loop bodies of `Gen/Loops.lean` (the code `harness/gen_loops.py` produces from the Python AST of
`BalanceSet.__init__` and `EntrySetIterator.__next__`).  A `dict` keyed by account is an association list in insertion order; `d[k]` is
`get?` (`none` = `KeyError`), `d.get(k, v)` is `getD`, `d[k] = v` is `set` (an existing key keeps its position, a new key goes last). -/
namespace Rp2

abbrev Dict := List (Nat × Rat)

namespace Dict
def get? (d : Dict) (k : Nat) : Option Rat := (d.find? (fun p => p.1 == k)).map (·.2)
def getD (d : Dict) (k : Nat) (v : Rat) : Rat := (get? d k).getD v
def set (d : Dict) (k : Nat) (v : Rat) : Dict :=
  if d.any (fun p => p.1 == k) then d.map (fun p => if p.1 == k then (p.1, v) else p) else d ++ [(k, v)]
def keys (d : Dict) : List Nat := d.map (·.1)
end Dict

/-- `RP2Decimal.__lt__`: `not __ge__`, the comparison being made on the difference quantised to 13 decimals -/
def lt13 (a b : Rat) : Bool := !decide (0 ≤ quant 13 (dsub a b))

/-- Python's iterator protocol over a `__next__` that returns `(item, remaining list)` or stops: what a `for` loop sees.
`fuel` bounds the number of calls; `length + 1` always suffices because every call consumes at least one element. -/
def drain {α} (next : List α → Option (α × List α)) : Nat → List α → List α
  | 0, _ => []
  | n + 1, l => match next l with
    | none => []
    | some (x, rest) => x :: drain next n rest

end Rp2
