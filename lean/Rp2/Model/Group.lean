namespace Rp2

variable {κ : Type} [DecidableEq κ] {α : Type}

/-- `summaries.setdefault(key, zero)`; `summaries[key] = value + x` on an insertion-ordered dict -/
def bump (add : α → α → α) (zero : α) : List (κ × α) → κ → α → List (κ × α)
  | [], k, x => [(k, add zero x)]
  | (k', s) :: t, k, x => if k' = k then (k', add s x) :: t else (k', s) :: bump add zero t k x

def group (add : α → α → α) (zero : α) (fs : List (κ × α)) : List (κ × α) :=
  fs.foldl (fun acc f => bump add zero acc f.1 f.2) []

end Rp2
