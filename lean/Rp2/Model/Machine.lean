import Rp2.Model.Basic
namespace Rp2

/-! ## Model of the candidate structures (mirror of abstract_accounting_method.py) -/

/-- Python's heap, abstracted to a multiset of lot indices with pop-min by key.
    `minIdx` returns an element that no other element ranks strictly before. -/
def minOf (m : Method) (L : Nat → Lot) : List Nat → Option Nat
  | [] => none
  | x :: xs =>
    match minOf m L xs with
    | none => some x
    | some y => if better m (L y) (L x) then some y else some x

theorem minOf_mem {m L} : ∀ (h : List Nat) x, minOf m L h = some x → x ∈ h := by
  intro h
  induction h with
  | nil => intro x hx; cases hx
  | cons a t ih =>
    intro x hx
    unfold minOf at hx
    split at hx
    · cases hx; exact List.mem_cons_self
    · rename_i y hy
      split at hx
      · cases hx; exact List.mem_cons_of_mem _ (ih _ hy)
      · cases hx; exact List.mem_cons_self

theorem minOf_none {m L} : ∀ (h : List Nat), minOf m L h = none → h = [] := by
  intro h hh
  cases h with
  | nil => rfl
  | cons a t =>
    unfold minOf at hh
    split at hh
    · cases hh
    · split at hh <;> cases hh

theorem minOf_le {m L} : ∀ (h : List Nat) x, minOf m L h = some x → ∀ y ∈ h, ¬ better m (L y) (L x) := by
  intro h
  induction h with
  | nil => intro x hx; cases hx
  | cons a t ih =>
    intro x hx y hy
    unfold minOf at hx
    split at hx
    · rename_i hn
      cases hx
      have := minOf_none t hn
      subst this
      cases hy with
      | head => exact lexLt_irrefl _
      | tail _ h' => cases h'
    · rename_i z hz
      have hz' := ih z hz
      split at hx
      · rename_i hb
        cases hx
        cases hy with
        | head => exact lexLt_asymm hb
        | tail _ h' => exact hz' y h'
      · rename_i hb
        cases hx
        cases hy with
        | head => exact lexLt_irrefl _
        | tail _ h' =>
          intro hyx
          -- y better than x(=a); z not better than a; y not better than z  => contradiction via totality
          have h1 := hz' y h'
          rcases lexLt_total (key m (L z)) (key m (L a)) with h2 | h2 | h2
          · exact hb h2
          · unfold better at h1 hyx; rw [h2] at h1; exact h1 hyx
          · unfold better at h1 hyx; exact h1 (lexLt_trans hyx h2)

/-- state shared by all candidate objects: remaining ("partial") amount per lot, `none` = untouched -/
abbrev Partial := Nat → Option Nat

def Partial.set (p : Partial) (i : Nat) (v : Nat) : Partial := fun j => if j = i then some v else p j

/-- amount the code reads for lot `i` (crypto_in when no partial amount is recorded) -/
def Partial.amt (p : Partial) (L : Nat → Lot) (i : Nat) : Nat := (p i).getD (L i).amount

/-- feature-based seek (fixed code: the selected lot is always pushed back).
    Returns selected (lot, amount), the new heap and the new partial map. -/
def seekHeap (m : Method) (L : Nat → Lot) (p : Partial) : (fuel : Nat) → List Nat → Option (Nat × Nat) × List Nat × Partial
  | 0, h => (none, h, p)
  | fuel+1, h =>
    match minOf m L h with
    | none => (none, h, p)
    | some i =>
      let h' := h.erase i
      if 0 < p.amt L i then (some (i, p.amt L i), i :: h', p.set i 0)
      else seekHeap m L p fuel h'

theorem seekHeap_some {m L p} : ∀ fuel h i a h2 p2, seekHeap m L p fuel h = (some (i, a), h2, p2) →
    i ∈ h ∧ a = p.amt L i ∧ 0 < a ∧ p2 = p.set i 0 ∧
    (∀ j ∈ h, 0 < p.amt L j → ¬ better m (L j) (L i)) ∧
    (∀ j, j ∈ h → 0 < p.amt L j → j ∈ h2) ∧ (∀ j ∈ h2, j ∈ h) := by
  intro fuel
  induction fuel with
  | zero => intro h i a h2 p2 hs; simp [seekHeap] at hs
  | succ f ih =>
    intro h i a h2 p2 hs
    unfold seekHeap at hs
    split at hs
    · simp at hs
    · rename_i x hx
      have hxm := minOf_mem h x hx
      have hxle := minOf_le h x hx
      simp only at hs
      split at hs
      · rename_i hpos
        simp only [Prod.mk.injEq, Option.some.injEq] at hs
        obtain ⟨⟨rfl, rfl⟩, rfl, rfl⟩ := hs
        refine ⟨hxm, rfl, hpos, rfl, ?_, ?_, ?_⟩
        · intro j hj _; exact hxle j hj
        · intro j hj _
          by_cases hji : j = x
          · subst hji; exact List.mem_cons_self
          · exact List.mem_cons_of_mem _ ((List.mem_erase_of_ne hji).mpr hj)
        · intro j hj
          cases hj with
          | head => exact hxm
          | tail _ h' => exact List.mem_of_mem_erase h'
      · rename_i hzero
        have := ih (h.erase x) i a h2 p2 hs
        obtain ⟨hi, ha, hpos, hp2, hbest, hkeep, hsub⟩ := this
        refine ⟨List.mem_of_mem_erase hi, ha, hpos, hp2, ?_, ?_, ?_⟩
        · intro j hj hjpos
          by_cases hjx : j = x
          · subst hjx; exact absurd hjpos hzero
          · exact hbest j ((List.mem_erase_of_ne hjx).mpr hj) hjpos
        · intro j hj hjpos
          by_cases hjx : j = x
          · subst hjx; exact absurd hjpos hzero
          · exact hkeep j ((List.mem_erase_of_ne hjx).mpr hj) hjpos
        · intro j hj; exact List.mem_of_mem_erase (hsub j hj)

theorem seekHeap_none {m L p} : ∀ fuel h h2 p2, h.length ≤ fuel → seekHeap m L p fuel h = (none, h2, p2) →
    (∀ j ∈ h, ¬ 0 < p.amt L j) ∧ p2 = p := by
  intro fuel
  induction fuel with
  | zero =>
    intro h h2 p2 hl hs
    have : h = [] := List.eq_nil_of_length_eq_zero (Nat.le_zero.mp hl)
    subst this
    simp [seekHeap] at hs
    exact ⟨(by intro j hj; cases hj), hs.2.symm⟩
  | succ f ih =>
    intro h h2 p2 hl hs
    unfold seekHeap at hs
    split at hs
    · rename_i hn
      have := minOf_none h hn
      subst this
      simp at hs
      exact ⟨(by intro j hj; cases hj), hs.2.symm⟩
    · rename_i x hx
      have hxm := minOf_mem h x hx
      simp only at hs
      split at hs
      · simp at hs
      · rename_i hzero
        have hl' : (h.erase x).length ≤ f := by
          rw [List.length_erase_of_mem hxm]; omega
        obtain ⟨h1, h2'⟩ := ih (h.erase x) h2 p2 hl' hs
        refine ⟨?_, h2'⟩
        intro j hj
        by_cases hjx : j = x
        · subst hjx; exact hzero
        · exact h1 j ((List.mem_erase_of_ne hjx).mpr hj)

end Rp2
