import Rp2.Model.Tx
namespace Rp2

/-- what `dateutil.parser.parse` makes of a string cell (oracle supplied by the harness) -/
inductive TsInfo | bad | naive | aware (us off : Int)
deriving Repr

inductive Cell
  | empty
  | str (s : String) (ts : TsInfo)
  | num (q : Rat)            -- exact value of the double
deriving Repr

inductive Table | tin | tout | tintra
deriving DecidableEq, Repr

structure Config where
  assets : List String
  exchanges : List String
  holders : List String
  inCols : List (String × Nat)
  outCols : List (String × Nat)
  intraCols : List (String × Nat)

def tableOf (c : Cell) : Option Table :=
  match c with
  | .str s _ => match s.toLower with
    | "in" => some .tin | "out" => some .tout | "intra" => some .tintra | _ => none
  | _ => none
def isEnd (c : Cell) : Bool := match c with | .str "TABLE END" _ => true | _ => false
def isEmptyCell (c : Cell) : Bool := match c with | .empty => true | .str "" _ => true | _ => false

inductive PErr | structure_ (msg : String) | row (r : Nat) (msg : String)
deriving Repr

/-- field access through the header map; `none` = field not mapped (constructor default / TypeError) -/
def field (cols : List (String × Nat)) (row : List Cell) (name : String) : Option Cell :=
  (cols.find? (·.1 == name)).map (fun p => row.getD p.2 .empty)

/-- `RP2Decimal(f"{value:.11f}")` in grid units -/
def toUnits (q : Rat) : Int := (quant 11 q * U).num

/-- numeric constructor argument: not mapped → none; empty → some none; number → some (some units); other → error -/
def numArg (cols : List (String × Nat)) (row : List Cell) (name : String) : Except String (Option (Option Int)) :=
  match field cols row name with
  | none => .ok none
  | some .empty => .ok (some none)
  | some (.num q) =>
    -- comparisons quantise to 13 decimals under a 31-digit context: |x| ≥ 10^18 raises InvalidOperation
    let u := toUnits q
    if u.natAbs ≥ 10 ^ 29 then .error s!"{name} out of range" else .ok (some (some u))
  | some (.str _ _) => .error s!"non-numeric {name}"

def strArg (cols : List (String × Nat)) (row : List Cell) (name : String) : Except String String :=
  match field cols row name with
  | some (.str s _) => .ok s
  | _ => .error s!"{name} is not a string"

def tsArg (cols : List (String × Nat)) (row : List Cell) : Except String Stamp :=
  match field cols row "timestamp" with
  | some (.str _ (.aware us off)) => .ok ⟨us, off⟩
  | some (.str _ .naive) => .error "no timezone"
  | _ => .error "bad timestamp"

def known (l : List String) (s : String) (what : String) : Except String Unit :=
  if l.contains s then .ok () else .error s!"unknown {what}"

/-- mandatory numeric: must be mapped and non-empty -/
def needNum (name : String) : Option (Option Int) → Except String Int
  | some (some v) => .ok v
  | _ => .error s!"missing {name}"
def optNum : Option (Option Int) → Option Int
  | some (some v) => some v
  | _ => none

def notesOk (cols : List (String × Nat)) (row : List Cell) : Except String Unit :=
  match field cols row "notes" with
  | some (.num q) => if q = 0 then .ok () else .error "notes not a string"
  | _ => .ok ()

structure ParsedIn where
  tx : InTx
  exch : String
  holder : String
  cryptoFee : Int

def maxCol (cols : List (String × Nat)) : Nat := cols.foldl (fun m p => max m p.2) 0

/-- a validation step: `if ¬ c then raise` (written as a bind step so that the constructors stay linear) -/
def ensure (c : Bool) (msg : String) : Except String Unit := if c then .ok () else .error msg
def ofOpt {α} (o : Option α) (msg : String) : Except String α := match o with | some a => .ok a | none => .error msg
/-- an optional numeric argument, when given, must satisfy `p` -/
def optAll (o : Option Int) (p : Int → Bool) (msg : String) : Except String Unit := ensure (o.all p) msg

def mkInRow (cfg : Config) (asset : String) (acct : String → String → Nat) (r : Nat) (row : List Cell) : Except String ParsedIn := do
  ensure (decide (maxCol cfg.inCols < row.length)) "row too short"
  let price ← numArg cfg.inCols row "spot_price"
  let cin ← numArg cfg.inCols row "crypto_in"
  let cfee ← numArg cfg.inCols row "crypto_fee"
  let fnf ← numArg cfg.inCols row "fiat_in_no_fee"
  let fwf ← numArg cfg.inCols row "fiat_in_with_fee"
  let ffee ← numArg cfg.inCols row "fiat_fee"
  let a ← strArg cfg.inCols row "asset"
  known cfg.assets a "asset"
  let ts ← tsArg cfg.inCols row
  let typS ← strArg cfg.inCols row "transaction_type"
  let typ ← ofOpt (TxType.ofString? typS.toLower) "bad type"
  let price ← needNum "spot_price" price
  ensure (decide (0 ≤ price)) "negative price"
  notesOk cfg.inCols row
  let ex ← strArg cfg.inCols row "exchange"
  known cfg.exchanges ex "exchange"
  let ho ← strArg cfg.inCols row "holder"
  known cfg.holders ho "holder"
  let cin ← needNum "crypto_in" cin
  ensure (decide (typ = .staking) || decide (0 < cin)) "crypto_in not positive"
  ensure (decide (0 ≤ (optNum cfee).getD 0)) "negative crypto_fee"
  ensure (decide (0 ≤ (optNum ffee).getD 0)) "negative fiat_fee"
  ensure (decide (price ≠ 0)) "zero price"
  ensure (!((optNum cfee).isSome && (optNum ffee).isSome)) "both fees"
  optAll (optNum fnf) (fun v => decide (0 < v)) "fiat_in_no_fee"
  optAll (optNum fwf) (fun v => decide (0 < v)) "fiat_in_with_fee"
  ensure (decide (typ = .buy) || decide (typ = .gift) || decide (typ = .donate) || typ.isEarn) "type not allowed in IN"
  ensure (decide (a = asset)) "asset differs from sheet"
  let cfeeV := (optNum cfee).getD 0
  let ffeeV := (optNum ffee).getD 0
  -- fiat fee: converted crypto fee if only the crypto fee is given
  let fiatFee : Rat := if (optNum cfee).isSome && (optNum ffee).isNone then dmul (ofUnits cfeeV) (ofUnits price) else ofUnits ffeeV
  let fiatNoFee : Rat := match optNum fnf with | some v => ofUnits v | none => dmul (ofUnits cin) (ofUnits price)
  let fiatWithFee : Rat := match optNum fwf with | some v => ofUnits v | none => dadd fiatNoFee fiatFee
  -- an acquisition with a crypto fee is re-created by the parser with its fiat values passed explicitly: they must not vanish
  -- (13-decimal comparison), which rejects e.g. a zero-amount staking row that carries a crypto fee
  ensure (!(decide (0 < cfeeV)) || (gt13 fiatNoFee 0 && gt13 fiatWithFee 0)) "crypto-fee acquisition with zero fiat value"
  pure { tx := { row := r, ts, acct := acct ex ho, typ, price, amount := cin, fiatFee, fiatNoFee, fiatWithFee },
         exch := ex, holder := ho, cryptoFee := cfeeV }

def mkOutRow (cfg : Config) (asset : String) (acct : String → String → Nat) (r : Nat) (row : List Cell) : Except String OutTx := do
  ensure (decide (maxCol cfg.outCols < row.length)) "row too short"
  let price ← numArg cfg.outCols row "spot_price"
  let onf ← numArg cfg.outCols row "crypto_out_no_fee"
  let fee ← numArg cfg.outCols row "crypto_fee"
  let owf ← numArg cfg.outCols row "crypto_out_with_fee"
  let fnf ← numArg cfg.outCols row "fiat_out_no_fee"
  let ffee ← numArg cfg.outCols row "fiat_fee"
  let a ← strArg cfg.outCols row "asset"
  known cfg.assets a "asset"
  let ts ← tsArg cfg.outCols row
  let typS ← strArg cfg.outCols row "transaction_type"
  let typ ← ofOpt (TxType.ofString? typS.toLower) "bad type"
  let price ← needNum "spot_price" price
  ensure (decide (0 ≤ price)) "negative price"
  notesOk cfg.outCols row
  let ex ← strArg cfg.outCols row "exchange"
  known cfg.exchanges ex "exchange"
  let ho ← strArg cfg.outCols row "holder"
  known cfg.holders ho "holder"
  let onf ← needNum "crypto_out_no_fee" onf
  let fee ← needNum "crypto_fee" fee
  -- a fee-typed disposal has no amount and a positive fee; every other type needs a price, a positive amount, a non-negative fee
  ensure (if typ = .fee then decide (onf = 0) && decide (0 < fee) else decide (price ≠ 0) && decide (0 < onf) && decide (0 ≤ fee)) "amounts"
  optAll (optNum owf) (fun v => decide (0 < v)) "crypto_out_with_fee"
  optAll (optNum fnf) (fun v => decide (0 < v)) "fiat_out_no_fee"
  optAll (optNum ffee) (fun v => decide (0 ≤ v)) "fiat_fee"
  ensure (decide (typ = .donate) || decide (typ = .fee) || decide (typ = .gift) || decide (typ = .lost) || decide (typ = .sell) || decide (typ = .staking)) "type not allowed in OUT"
  ensure (decide (a = asset)) "asset differs from sheet"
  pure (mkOut r ts (acct ex ho) typ price onf fee (optNum owf) (optNum fnf) (optNum ffee))

def mkIntraRow (cfg : Config) (asset : String) (acct : String → String → Nat) (r : Nat) (row : List Cell) : Except String IntraTx := do
  ensure (decide (maxCol cfg.intraCols < row.length)) "row too short"
  let price ← numArg cfg.intraCols row "spot_price"
  let sent ← numArg cfg.intraCols row "crypto_sent"
  let recv ← numArg cfg.intraCols row "crypto_received"
  let sent ← needNum "crypto_sent" sent
  ensure (decide (0 < sent)) "sent not positive"
  let recv ← needNum "crypto_received" recv
  ensure (decide (0 ≤ recv)) "negative received"
  -- a missing or zero spot price is allowed only for a fee-less transfer
  ensure (decide ((optNum price).getD 0 ≠ 0) || decide (sent - recv = 0)) "fee without price"
  let priceV := (optNum price).getD 0
  let a ← strArg cfg.intraCols row "asset"
  known cfg.assets a "asset"
  let ts ← tsArg cfg.intraCols row
  ensure (decide (0 ≤ priceV)) "negative price"
  notesOk cfg.intraCols row
  let fe ← strArg cfg.intraCols row "from_exchange"
  known cfg.exchanges fe "exchange"
  let fh ← strArg cfg.intraCols row "from_holder"
  known cfg.holders fh "holder"
  let te ← strArg cfg.intraCols row "to_exchange"
  known cfg.exchanges te "exchange"
  let th ← strArg cfg.intraCols row "to_holder"
  known cfg.holders th "holder"
  ensure (decide (recv ≤ sent)) "received more than sent"
  ensure (decide (a = asset)) "asset differs from sheet"
  pure (mkIntra r ts (acct fe fh) (acct te th) priceV sent recv)

structure PState where
  cur : Option Table := none
  count : Nat := 0
  ins : List ParsedIn := []      -- reversed
  outs : List OutTx := []
  intras : List IntraTx := []

def setEmpty (st : PState) : Table → Bool
  | .tin => st.ins.isEmpty | .tout => st.outs.isEmpty | .tintra => st.intras.isEmpty

def tryRow (cfg : Config) (asset : String) (acct : String → String → Nat) (t : Table) (r : Nat) (row : List Cell) (st : PState) : Except String PState :=
  match t with
  | .tin => do let p ← mkInRow cfg asset acct r row; pure { st with ins := p :: st.ins }
  | .tout => do let p ← mkOutRow cfg asset acct r row; pure { st with outs := p :: st.outs }
  | .tintra => do let p ← mkIntraRow cfg asset acct r row; pure { st with intras := p :: st.intras }

/-- `parse_ods` for one sheet; rows are numbered from 1 -/
def parseRows (cfg : Config) (asset : String) (acct : String → String → Nat) :
    Nat → PState → List (List Cell) → Except PErr PState
  | _, st, [] => .ok st
  | i, st, row :: rest =>
    let c0 := row.getD 0 .empty
    let r := i + 1
    let check : Except PErr Unit :=
      match st.cur with
      | some _ =>
        if (tableOf c0).isSome then .error (.structure_ "nested table")
        else if isEmptyCell c0 then .error (.structure_ "empty cell in table") else .ok ()
      | none =>
        if isEnd c0 then .error (.structure_ "end without begin")
        else if !isEmptyCell c0 && (tableOf c0).isNone then .error (.structure_ "data outside table") else .ok ()
    match check with
    | .error e => .error e
    | .ok () =>
      match tableOf c0 with
      | some t =>
        if !setEmpty st t then .error (.structure_ "repeated table")
        else parseRows cfg asset acct (i+1) { st with cur := some t, count := 1 } rest
      | none =>
        if isEnd c0 then parseRows cfg asset acct (i+1) { st with cur := none, count := st.count + 1 } rest
        else match st.cur with
          | none => parseRows cfg asset acct (i+1) { st with count := st.count + 1 } rest
          | some t =>
            if st.count = 1 then
              match tryRow cfg asset acct t r row st with
              | .ok _ => .error (.structure_ "data with no header")
              | .error _ => parseRows cfg asset acct (i+1) { st with count := st.count + 1 } rest
            else
              match tryRow cfg asset acct t r row st with
              | .ok st' => parseRows cfg asset acct (i+1) { st' with count := st.count + 1 } rest
              | .error m => .error (.row r m)

structure Parsed where
  ins : List InTx
  outs : List OutTx
  intras : List IntraTx

/-- `artBase`: number of artificial transactions created so far in this run (the id counter lives in the configuration object
    and is shared by all assets) -/
def parseSheet (cfg : Config) (asset : String) (acct : String → String → Nat) (rows : List (List Cell)) (artBase : Nat := 0) : Except PErr Parsed :=
  match parseRows cfg asset acct 0 {} rows with
  | .error e => .error e
  | .ok st =>
    if st.cur.isSome then .error (.structure_ "TABLE END not found")
    else if st.ins.isEmpty then .error (.structure_ "IN table not found or empty")
    else
      let ins := st.ins.reverse
      -- crypto fee split: artificial fee-only out-transactions, ids -1, -2, ... appended after the real ones
      let feeIns := ins.filter (fun p => decide (0 < p.cryptoFee))
      let arts : List OutTx := (List.range feeIns.length).zip feeIns |>.map fun (k, p) =>
        mkOut (-(artBase + k + 1 : Nat)) p.tx.ts p.tx.acct .fee p.tx.price 0 p.cryptoFee none none none
      .ok { ins := ins.map (·.tx), outs := st.outs.reverse ++ arts, intras := st.intras.reverse }

end Rp2
