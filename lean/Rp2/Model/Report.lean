import Rp2.Model.Pipeline
namespace Rp2

/-- everything `ComputedData` holds for one asset, as far as the full report needs it -/
structure Computed where
  asset : String
  ins : List InTx            -- filtered view, time order
  outs : List OutTx
  intras : List IntraTx
  inRun : List (Int × Rat)   -- row ↦ crypto-in running sum over the UNFILTERED set
  outRun : List (Int × Rat × Rat)
  intraRun : List (Int × Rat)
  sold : List (Int × Rat)    -- lot row ↦ sold percentage
  fracs : List Numbered      -- filtered view
  fracRun : List Rat         -- running sum of crypto amount for the fractions shown (over the unfiltered list)
  yearly : List (YKey × YSums)   -- in the code's display order
  bals : List BalRow             -- in the code's display order
  price : Rat

def viewOf {α} (day : α → Int) (fromD toD : Option Int) (l : List α) : List α :=
  (cutAt day toD l).filter (fun x => match fromD with | none => true | some f => decide (f ≤ day x))

def insertBy {α} (lt : α → α → Bool) (x : α) : List α → List α
  | [] => [x]
  | y :: t => if lt x y then x :: y :: t else y :: insertBy lt x t
def sortBy {α} (lt : α → α → Bool) (l : List α) : List α := l.foldr (insertBy lt) []

def yearlyKeyStr (asset : String) (k : YKey) : String :=
  s!"{asset} {k.year} {if k.long then "LONG" else "SHORT"} {k.typ.name}"

def runSums {α} (f : α → Rat) (l : List α) : List Rat :=
  (l.foldl (fun (acc : Rat × List Rat) x => let s := dadd acc.1 (f x); (s, acc.2 ++ [s])) (0, [])).2

def compute (asset : String) (acctName : Nat → String) (period : Int) (allowNeg : Bool) (fromD toD : Option Int)
    (sched : List (Int × Method)) (ins : List InTx) (outs : List OutTx) (intras : List IntraTx) :
    Except String Computed :=
  match computeFractions sched ins outs intras with
  | .error e => .error s!"{repr e}"
  | .ok fs =>
    match balances allowNeg toD ins outs intras with
    | .error a => .error s!"overdrawn {a}"
    | .ok bs =>
      let sIns := sortByTs (·.ts.us) ins
      let sOuts := sortByTs (·.ts.us) outs
      let sIntras := sortByTs (·.ts.us) intras
      let cut := cutAt (fun f : Fraction => f.ev.ts.day) toD fs
      let numbered := numberFractions cut
      let shown := numbered.filter (fun n => match fromD with | none => true | some f => decide (f ≤ n.f.ev.ts.day))
      let allRun := runSums (fun f : Fraction => ofUnits f.amt) fs
      let fracRun := ((List.range cut.length).zip numbered).filterMap fun (i, n) =>
        match fromD with
        | none => allRun[i]?
        | some f => if f ≤ n.f.ev.ts.day then allRun[i]? else none
      let fromYear : Option Int := fromD.map (fun d => (civilFromDays d).1)
      let ys := (yearly period cut).filter (fun (k, _) => match fromYear with | none => true | some y => decide (y ≤ k.year))
      let ys := sortBy (fun a b => decide (yearlyKeyStr asset b.1 < yearlyKeyStr asset a.1)) ys   -- reverse=True
      let bs := sortBy (fun a b => decide (acctName a.acct < acctName b.acct)) bs
      let inDay (l : InTx) : Bool := (match fromD with | none => true | some f => decide (f ≤ l.ts.day)) &&
                                     (match toD with | none => true | some t => decide (l.ts.day ≤ t))
      let sold := shown.foldl (fun (acc : List (Int × Rat)) n =>
        match n.f.lot with
        | none => acc
        | some l =>
          if !inDay l then acc else
          let pct := ddiv (ofUnits n.f.amt) (ofUnits l.amount)
          if acc.any (·.1 == l.row) then acc.map (fun p => if p.1 == l.row then (p.1, dadd p.2 pct) else p)
          else acc ++ [(l.row, dadd 0 pct)]) []
      .ok { asset,
            ins := viewOf (·.ts.day) fromD toD sIns, outs := viewOf (·.ts.day) fromD toD sOuts,
            intras := viewOf (·.ts.day) fromD toD sIntras,
            inRun := (sIns.map (·.row)).zip (runSums (fun t : InTx => ofUnits t.amount) sIns),
            outRun := (sOuts.map (·.row)).zip ((runSums (fun t : OutTx => ofUnits t.outNoFee) sOuts).zip (runSums (fun t : OutTx => ofUnits t.fee) sOuts)),
            intraRun := (sIntras.map (·.row)).zip (runSums (fun t : IntraTx => ofUnits (t.sent - t.recv)) sIntras),
            sold, fracs := shown, fracRun, yearly := ys, bals := bs, price := pricePerUnit toD ins }

/-! ### rp2_full_report as abstract rows -/

inductive RRow
  | ioIn (asset : String) (row : Nat) (tx : Int) (sold : Option Rat) (amt run : Rat) (fiat : List Rat)      -- fiat: spot price, fee, in (no fee), in (with fee)
  | ioOut (asset : String) (row : Nat) (tx : Int) (amt fee run feeRun : Rat) (fiat : List Rat)              -- fiat: spot price, out (no fee), fee
  | ioIntra (asset : String) (row : Nat) (tx : Int) (sent recv fee feeRun : Rat) (fiat : List Rat)         -- fiat: spot price, fee, taxable (1/0)
  | taxY (asset : String) (row : Nat) (year : Int) (typ : String) (long : Bool) (gain amt fiat cost : Rat)
  | taxB (asset : String) (row : Nat) (acct : Nat) (acq sent recv fin : Rat)
  | taxT (asset : String) (row : Nat) (holder : String) (total : Rat)
  | taxP (asset : String) (row : Nat) (price : Rat)
  | taxD (asset : String) (row : Nat) (ev : Int) (lot : Option Int) (amt run gain : Rat) (long : Bool)
        (evLink lotLink : Option Nat) (evK evN : Nat) (lotK lotN : Option Nat) (fiat : List Rat)      -- fiat: proceeds, cost basis
  | summ (row : Nat) (asset : String) (year : Int) (typ : String) (long : Bool) (link : Option Nat)

structure GenState where
  txRow : List (Int × Nat) := []              -- class-level dictionary tx ↦ row (keyed by row id only)
  yearRow : List ((String × Int) × Nat) := []  -- class-level dictionary (asset, year) ↦ row
  summaryRow : Nat := 3

def lookupI {β} (k : Int) (l : List (Int × β)) : Option β := (l.find? (·.1 == k)).map (·.2)
def setI {β} (k : Int) (v : β) (l : List (Int × β)) : List (Int × β) :=
  if l.any (·.1 == k) then l.map (fun p => if p.1 == k then (k, v) else p) else l ++ [(k, v)]

/-- (transaction id, 1-based row of the In-Out sheet) for every transaction shown: In-Flow rows from row 4, Out-Flow after them,
    Intra-Flow last -/
def shownRows (c : Computed) : List (Int × Nat) :=
  ((List.range c.ins.length).zip c.ins).map (fun (k, t) => (t.row, 3 + k + 1)) ++
  ((List.range c.outs.length).zip c.outs).map (fun (k, t) => (t.row, 8 + c.ins.length + k + 1)) ++
  ((List.range c.intras.length).zip c.intras).map (fun (k, t) => (t.row, 13 + c.ins.length + c.outs.length + k + 1))

/-- the transaction → row dictionary after writing the In-Out sheet of `c` (`d0`: what it held before) -/
def txRowFrom (d0 : List (Int × Nat)) (c : Computed) : List (Int × Nat) := (shownRows c).foldl (fun d p => setI p.1 p.2 d) d0

/-- `d[k] = d.setdefault(k, 0) + v` on an insertion-ordered dictionary with decimal values -/
def addS (l : List (String × Rat)) (k : String) (v : Rat) : List (String × Rat) :=
  if l.any (·.1 == k) then l.map (fun p => if p.1 == k then (k, dadd p.2 v) else p) else l ++ [(k, dadd 0 v)]

/-- per-holder totals of the Account Balances table: accumulated in balance-row order, shown sorted by holder -/
def holderTotals (holderOf : Nat → String) (bals : List BalRow) : List (String × Rat) :=
  sortBy (fun a b => decide (a.1 < b.1)) (bals.foldl (fun acc b => addS acc (holderOf b.acct) (ofUnits b.fin)) [])

/-- association lists as the generator's dictionaries: lookup and insert-or-replace (insertion order kept) -/
def aget {κ ν : Type} [BEq κ] (l : List (κ × ν)) (k : κ) : Option ν := (l.find? (·.1 == k)).map (·.2)
def aset {κ ν : Type} [BEq κ] (l : List (κ × ν)) (k : κ) (v : ν) : List (κ × ν) :=
  if l.any (·.1 == k) then l.map (fun p => if p.1 == k then (p.1, v) else p) else l ++ [(k, v)]

/-- `__tax_sheet_year_2_row[(asset, year)] = row`, assigned whenever the year differs from that of the previous detail row
    (`k` = index of the detail row, `prev` = year of the previous one, 0 before the first) -/
def yearRowsFrom (asset : String) (dStart : Nat) : Nat → Int → List ((String × Int) × Nat) → List Int → List ((String × Int) × Nat)
  | _, _, yr, [] => yr
  | k, prev, yr, y :: t => yearRowsFrom asset dStart (k + 1) y (if y ≠ prev then aset yr (asset, y) (dStart + k + 1) else yr) t

/-- everything `__generate_asset` lays out for one asset (no failure modelled here) -/
structure AssetLayout where
  rows : List RRow
  state : GenState
  dStart : Nat                 -- row before the first detail row
  capacity : Nat               -- rows the Tax sheet was sized for
  missingSummaryKey : Bool     -- some yearly line has no (asset, year) entry in the year → row dictionary

/-- `clearPerAsset = true` is the repaired behaviour (F4): the transaction → row dictionary starts empty for every asset -/
def layoutAsset (clearPerAsset : Bool) (holderOf : Nat → String) (period : Int) (st : GenState) (c : Computed) : AssetLayout :=
  let txRow0 := if clearPerAsset then [] else st.txRow
  -- In-Out sheet
  let nIn := c.ins.length; let nOut := c.outs.length
  let inRows := (List.range nIn).zip c.ins |>.map fun (k, t) =>
    let s := (lookupI t.row c.sold).getD 0
    let soldCell : Option Rat := if eq13 s 0 && k > 0 then none else some s
    (RRow.ioIn c.asset (3 + k + 1) t.row soldCell (ofUnits t.amount) ((lookupI t.row c.inRun).getD 0)
      [ofUnits t.price, t.fiatFee, t.fiatNoFee, t.fiatWithFee], (t.row, 3 + k + 1))
  let outStart := 8 + nIn
  let outRows := (List.range nOut).zip c.outs |>.map fun (k, t) =>
    let r := (lookupI t.row c.outRun).getD (0, 0)
    (RRow.ioOut c.asset (outStart + k + 1) t.row (ofUnits t.outNoFee) (ofUnits t.fee) r.1 r.2 [ofUnits t.price, t.fiatNoFee, t.fiatFee], (t.row, outStart + k + 1))
  let xStart := 13 + nIn + nOut
  let xRows := (List.range c.intras.length).zip c.intras |>.map fun (k, t) =>
    (RRow.ioIntra c.asset (xStart + k + 1) t.row (ofUnits t.sent) (ofUnits t.recv) (ofUnits (t.sent - t.recv)) ((lookupI t.row c.intraRun).getD 0)
      [ofUnits t.price, t.fiatFee, if gt13 t.fiatFee 0 then 1 else 0], (t.row, xStart + k + 1))
  let txRow := txRowFrom txRow0 c
  -- Tax sheet
  let nY := c.yearly.length
  let yRows := (List.range nY).zip c.yearly |>.map fun (k, (key, s)) =>
    RRow.taxY c.asset (3 + k + 1) key.year key.typ.name key.long s.gain s.amt s.fiat s.cost
  let bStart := 8 + nY
  let bRows := (List.range c.bals.length).zip c.bals |>.map fun (k, b) =>
    RRow.taxB c.asset (bStart + k + 1) b.acct (ofUnits b.acq) (ofUnits b.sent) (ofUnits b.recv) (ofUnits b.fin)
  -- per-holder totals in first-seen order, then sorted by holder
  let totals := holderTotals holderOf c.bals
  let tStart := bStart + c.bals.length
  let tRows := (List.range totals.length).zip totals |>.map fun (k, (h, v)) => RRow.taxT c.asset (tStart + k + 1) h v
  let pRow := tStart + totals.length + 2 + 3
  let dStart := pRow + 1 + 2 + 3
  -- sheet capacity: MIN_ROWS + yearly + balances + holders + fractions rows (F10 repaired)
  let capacity := 40 + nY + c.bals.length + totals.length + c.fracs.length
  let shownFr := c.fracs.zip c.fracRun
  let dRows := ((List.range c.fracs.length).zip shownFr).map fun (k, (n, run)) =>
    RRow.taxD c.asset (dStart + k + 1) n.f.ev.row (n.f.lot.map (·.row)) (ofUnits n.f.amt) run n.f.gain (n.f.isLong period)
      (lookupI n.f.ev.row txRow) (n.f.lot.bind (fun l => lookupI l.row txRow)) (n.evK + 1) n.evN (n.lotK.map (· + 1)) n.lotN
      [n.f.proceeds, n.f.cost]
  let yearRow := yearRowsFrom c.asset dStart 0 0 st.yearRow (shownFr.map (·.1.f.ev.ts.year))
  -- Summary sheet: one line per yearly line, linked to the first detail row of that year when there is one
  let linkOfYear (y : Int) : Option Nat := aget yearRow (c.asset, y)
  let sRows := (List.range nY).zip c.yearly |>.map fun (k, (key, _)) =>
    RRow.summ (st.summaryRow + k + 1) c.asset key.year key.typ.name key.long (linkOfYear key.year)
  { rows := inRows.map (·.1) ++ outRows.map (·.1) ++ xRows.map (·.1) ++ yRows ++ bRows ++ tRows ++ [RRow.taxP c.asset (pRow + 1) c.price] ++ dRows ++ sRows,
    state := { txRow, yearRow, summaryRow := st.summaryRow + nY },
    dStart, capacity,
    missingSummaryKey := c.yearly.any (fun (key, _) => (linkOfYear key.year).isNone) }

/-- `__generate_asset` with its two failure modes: writing past the sized sheet (`IndexError`, F10) and — before the repair of F2
    (`summaryDefault = false`) — a Summary line whose year has no detail row (`KeyError`) -/
def genAsset (clearPerAsset summaryDefault : Bool) (holderOf : Nat → String) (period : Int) (st : GenState) (c : Computed) :
    Except String (List RRow × GenState) :=
  let L := layoutAsset clearPerAsset holderOf period st c
  if L.dStart + c.fracs.length > L.capacity then .error "IndexError: tax sheet too small"
  else if !summaryDefault && L.missingSummaryKey then .error "KeyError: (asset, year)"
  else .ok (L.rows, L.state)

/-- assets in order, threading the generator's state (row dictionaries, next Summary row) -/
def genFullFrom (clearPerAsset summaryDefault : Bool) (holderOf : Nat → String) (period : Int) :
    List RRow × GenState → List Computed → Except String (List RRow)
  | acc, [] => .ok acc.1
  | acc, c :: t =>
    match genAsset clearPerAsset summaryDefault holderOf period acc.2 c with
    | .error e => .error e
    | .ok (r, st) => genFullFrom clearPerAsset summaryDefault holderOf period (acc.1 ++ r, st) t

def genFull (clearPerAsset summaryDefault : Bool) (holderOf : Nat → String) (period : Int) (cs : List Computed) : Except String (List RRow) :=
  genFullFrom clearPerAsset summaryDefault holderOf period ([], {}) cs

end Rp2
