import Rp2.Model.Parser
/-! `Configuration.__init__` on the sections that `configparser` returns (option names lower-cased, values stripped; duplicate options and
files without a section header are refused by `configparser` itself and never reach this code). Checks and their order follow the code:
per section in file order — `general` (assets, exchanges, holders), the three header sections, `accounting_methods`, anything else is
invalid — then the six "missing" checks. -/
namespace Rp2.Ini
open Rp2

structure Section where
  name : String
  items : List (String × String)

def inAllowed : List String := ["timestamp", "asset", "exchange", "holder", "transaction_type", "spot_price", "crypto_in", "crypto_fee",
  "fiat_in_no_fee", "fiat_in_with_fee", "fiat_fee", "unique_id", "notes"]
def outAllowed : List String := ["timestamp", "asset", "exchange", "holder", "transaction_type", "spot_price", "crypto_out_no_fee", "crypto_fee",
  "crypto_out_with_fee", "fiat_out_no_fee", "fiat_fee", "unique_id", "notes"]
def intraAllowed : List String := ["timestamp", "asset", "from_exchange", "from_holder", "to_exchange", "to_holder", "spot_price", "crypto_sent",
  "crypto_received", "unique_id", "notes"]

def strip (s : String) : String := s.trimAscii.toString
/-- `section_name.strip().split(" ", 1)[0].strip()` -/
def normName (s : String) : String := strip (((strip s).splitOn " ").headD "")

/-- `int(s.strip())` for plain decimal literals with an optional sign (Python also accepts `1_0` and non-ASCII digits: not generated) -/
def pyInt? (s : String) : Option Int :=
  let t := strip s
  let body := if t.startsWith "-" || t.startsWith "+" then (t.drop 1).toString else t
  match body.toNat? with
  | none => none
  | some n => if body.all Char.isDigit then some (if t.startsWith "-" then -(n : Int) else n) else none

def lookup (items : List (String × String)) (k : String) : Option String := (items.find? (·.1 == k)).map (·.2)

/-- `_validate_string_set` -/
def stringSet (field : String) (items : List (String × String)) : Except String (List String) :=
  match lookup items field with
  | none => .error s!"mandatory field {field} missing"
  | some v =>
    if (strip v).isEmpty then .error s!"field {field} empty" else
    let vals := (v.splitOn ",").map strip
    if vals.isEmpty then .error s!"field {field} empty" else
    if vals.any (·.isEmpty) then .error s!"field {field} contains an empty element" else
    if !decide vals.Nodup then .error s!"field {field} contains duplicate elements" else
    .ok vals

/-- one `header = column` line of `_validate_header_section`; `acc` = the header map so far, in file order -/
def headerStep (allowed : List String) (acc : List (String × Nat)) (kv : String × String) : Except String (List (String × Nat)) :=
  match pyInt? kv.2 with
  | none => .error s!"invalid column value for field {kv.1}"
  | some c =>
    if c < 0 then .error s!"negative column for field {kv.1}" else
    if acc.any (·.2 == c.toNat) then .error s!"two fields have column {c}" else
    if !allowed.contains kv.1 then .error s!"invalid column header {kv.1}" else
    .ok (acc ++ [(strip kv.1, c.toNat)])

def headerSection (allowed : List String) (items : List (String × String)) : Except String (List (String × Nat)) :=
  if items.isEmpty then .error "empty header section" else items.foldlM (headerStep allowed) []

def setYear (l : List (Int × String)) (y : Int) (m : String) : List (Int × String) :=
  if l.any (·.1 == y) then l.map (fun p => if p.1 == y then (y, m) else p) else l ++ [(y, m)]

def methodStep (acc : List (Int × String)) (kv : String × String) : Except String (List (Int × String)) :=
  match pyInt? kv.1 with
  | none => .error s!"invalid year {kv.1}"
  | some y => if y < 1970 then .error s!"year {y} before 1970" else .ok (setYear acc y (strip kv.2))

def methodSection (items : List (String × String)) : Except String (List (Int × String)) :=
  if items.isEmpty then .error "empty accounting_methods section" else items.foldlM methodStep []

structure Acc where
  assets : List String := []
  exchanges : List String := []
  holders : List String := []
  inH : List (String × Nat) := []
  outH : List (String × Nat) := []
  intraH : List (String × Nat) := []
  methods : List (Int × String) := []
  generators : Option (List String) := none

/-- one section of the file; `genSec` = the file has a section called `generators` (what `Keyword.GENERATORS.value in ini_configuration` tests) -/
def sectionStep (genSec : Bool) (a : Acc) (s : Section) : Except String Acc :=
  let n := normName s.name
  if strip s.name != s.name then .error "KeyError: section name with surrounding blanks" else
  if n == "general" then
    if !a.assets.isEmpty || !a.exchanges.isEmpty || !a.holders.isEmpty then .error "section general found multiple times" else do
      let assets ← stringSet "assets" s.items
      let exchanges ← stringSet "exchanges" s.items
      let holders ← stringSet "holders" s.items
      if genSec then
        let gens ← stringSet "generators" s.items
        pure { a with assets, exchanges, holders, generators := some gens }
      else pure { a with assets, exchanges, holders }
  else if n == "in_header" then
    if !a.inH.isEmpty then .error "section in_header found multiple times" else (headerSection inAllowed s.items).map (fun h => { a with inH := h })
  else if n == "out_header" then
    if !a.outH.isEmpty then .error "section out_header found multiple times" else (headerSection outAllowed s.items).map (fun h => { a with outH := h })
  else if n == "intra_header" then
    if !a.intraH.isEmpty then .error "section intra_header found multiple times" else (headerSection intraAllowed s.items).map (fun h => { a with intraH := h })
  else if n == "accounting_methods" then
    if !a.methods.isEmpty then .error "section accounting_methods found multiple times" else (methodSection s.items).map (fun m => { a with methods := m })
  else .error s!"invalid section {s.name}"

structure IniConfig where
  cfg : Config
  methods : List (Int × String)
  generators : Option (List String)

def finish (a : Acc) : Except String IniConfig :=
  if a.assets.isEmpty then .error "no assets" else
  if a.exchanges.isEmpty then .error "no exchanges" else
  if a.holders.isEmpty then .error "no holders" else
  if a.inH.isEmpty then .error "empty in_header" else
  if a.outH.isEmpty then .error "empty out_header" else
  if a.intraH.isEmpty then .error "empty intra_header" else
  .ok { cfg := { assets := a.assets, exchanges := a.exchanges, holders := a.holders, inCols := a.inH, outCols := a.outH, intraCols := a.intraH },
        methods := a.methods, generators := a.generators }

def ofIni (secs : List Section) : Except String IniConfig := do
  let a ← secs.foldlM (sectionStep (secs.any (fun s => s.name == "generators"))) {}
  finish a

end Rp2.Ini
