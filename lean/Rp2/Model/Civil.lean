namespace Rp2
/-- Howard Hinnant's civil_from_days; `z` = days since 1970-01-01 (proleptic Gregorian) -/
def civilFromDays (z0 : Int) : Int × Int × Int :=
  let z := z0 + 719468
  let era := (if z ≥ 0 then z else z - 146096) / 146097
  let doe := z - era * 146097
  let yoe := (doe - doe / 1460 + doe / 36524 - doe / 146096) / 365
  let y := yoe + era * 400
  let doy := doe - (365 * yoe + yoe / 4 - yoe / 100)
  let mp := (5 * doy + 2) / 153
  let d := doy - (153 * mp + 2) / 5 + 1
  let m := if mp < 10 then mp + 3 else mp - 9
  (if m ≤ 2 then y + 1 else y, m, d)

/-- local calendar day (days since epoch) and year of an instant (µs) seen at a UTC offset (seconds) -/
def localDay (tsMicro : Int) (offSec : Int) : Int := Int.fdiv (tsMicro + offSec * 1000000) 86400000000
def localYear (tsMicro : Int) (offSec : Int) : Int := (civilFromDays (localDay tsMicro offSec)).1
end Rp2
