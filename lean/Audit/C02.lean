import Rp2.Props.C02
#print axioms Rp2.C02.cover_and_no_overspend
#print axioms Rp2.C02.succeeds_iff_feasible
#print axioms Rp2.C02.pipeline_cover_and_no_overspend
