import Rp2.Props.C16
#print axioms Rp2.C16.default_options_have_templates
#print axioms Rp2.C16.shipped_languages_have_all_templates
#print axioms Rp2.C16.template_links_resolve
#print axioms Rp2.C16.every_accepted_method_exists
#print axioms Rp2.C16.default_method_is_accepted
#print axioms Rp2.C16.taxable_types_have_a_sheet
#print axioms Rp2.C16.files_are_reports
#print axioms Rp2.C16.full_report_total
#print axioms Rp2.C16.tax_sheet_fits
#print axioms Rp2.C16.tax_report_fails_only_on_unmapped_type
#print axioms Rp2.C16.tax_report_total
#print axioms Rp2.C16.valid_run_completes
#print axioms Rp2.C16.generator_full_total
#print axioms Rp2.C16.generator_tax_total
#print axioms Rp2.C16.generator_jp_total
#print axioms Rp2.C16.generator_open_positions_total
#print axioms Rp2.C16.valid_run_writes_every_report
