import Rp2.Props.C01
#print axioms Rp2.C01.methods_agree
#print axioms Rp2.C01.engine_refines_spec
#print axioms Rp2.C01.best_lot
#print axioms Rp2.runS_spec
#print axioms Rp2.pick_some
#print axioms Rp2.C01.pipeline_best_lot
#print axioms Rp2.C01.lots_sorted_by_instant_then_row
#print axioms Rp2.C01.method_in_force_iff
#print axioms Rp2.C01.method_in_force_independent_of_line_order
