import Rp2.Props.C19
#print axioms Rp2.C19.links_lead_to_own_row
#print axioms Rp2.C19.model_dictionary_is_per_asset
#print axioms Rp2.C19.model_links_lead_to_own_row
#print axioms Rp2.C19.model_summary_links_first_row_of_year
