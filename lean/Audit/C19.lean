import Rp2.Props.C19
#print axioms Rp2.C19.links_lead_to_own_row
