import Rp2.Props.C11
#print axioms Rp2.C11.in_row_layout_independent
#print axioms Rp2.C11.permuted_columns_same_fields
