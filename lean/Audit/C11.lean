import Rp2.Props.C11
#print axioms Rp2.C11.in_row_layout_independent
#print axioms Rp2.C11.permuted_columns_same_fields
#print axioms Rp2.C11.ids_are_row_numbers
#print axioms Rp2.C11.no_row_skipped
#print axioms Rp2.C11.in_row_fields_are_cells
#print axioms Rp2.C11.optional_cell_read
#print axioms Rp2.C11.out_row_fields_are_cells
#print axioms Rp2.C11.intra_row_fields_are_cells
#print axioms Rp2.C11.blank_rows_between_tables_are_skipped
