import Rp2.Props.C03
#print axioms Rp2.C03.events_exact
#print axioms Rp2.C03.events_perm
#print axioms Rp2.C03.each_once_in_full
#print axioms Rp2.C03.type_table_agrees
#print axioms Rp2.C03.transfer_taxed_iff_fee
#print axioms Rp2.C03.pipeline_each_event_once_in_full
#print axioms Rp2.C03.income_value_and_zero_cost
#print axioms Rp2.C03.source_taxability_is_the_models
#print axioms Rp2.C03.source_earning_flag_is_the_models
