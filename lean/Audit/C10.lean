import Rp2.Props.C10
#print axioms Rp2.C10.view_is_filter
#print axioms Rp2.C10.model_window_only_hides
#print axioms Rp2.C10.model_window_is_filter
#print axioms Rp2.C10.model_from_date_only_hides
#print axioms Rp2.C10.source_iterator_is_window
#print axioms Rp2.C10.model_yearly_lines_of_window
#print axioms Rp2.C10.model_yearly_lines_depend_on_from_year_only
#print axioms Rp2.C10.source_iterator_yields_the_reported_tables
#print axioms Rp2.C10.source_iterator_without_filters_shows_everything
