import Rp2.Props.C10
#print axioms Rp2.C10.view_is_filter
