import Rp2.Props.C10
#print axioms Rp2.C10.view_is_filter
#print axioms Rp2.C10.model_window_only_hides
#print axioms Rp2.C10.model_window_is_filter
#print axioms Rp2.C10.model_from_date_only_hides
#print axioms Rp2.C10.source_iterator_is_window
