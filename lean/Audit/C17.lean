import Rp2.Props.C17
#print axioms Rp2.C17.row_order_irrelevant
#print axioms Rp2.C17.asset_rows_independent_of_other_assets
#print axioms Rp2.C17.model_row_order_irrelevant
#print axioms Rp2.C17.model_sheet_order_irrelevant
#print axioms Rp2.C17.model_asset_results_independent_of_other_assets
