import Rp2.Props.C07
#print axioms Rp2.C07.final_is_flows
#print axioms Rp2.C07.reported_with_allow_negative
#print axioms Rp2.C07.model_flows
#print axioms Rp2.C07.model_final
#print axioms Rp2.C07.model_accounts_once
#print axioms Rp2.C07.model_holder_totals
#print axioms Rp2.C07.model_balances_reconcile_with_lots
#print axioms Rp2.C07.model_sum_of_final_balances
#print axioms Rp2.C07.model_balances_reconcile_with_lots_to_date
#print axioms Rp2.C07.source_balance_loop_is_model
#print axioms Rp2.C07.source_replay_order_and_cut
#print axioms Rp2.C07.source_balance_loop_with_break_is_model
