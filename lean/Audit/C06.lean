import Rp2.Props.C06
#print axioms Rp2.C06.lines_are_sums
