import Rp2.Props.C06
#print axioms Rp2.C06.lines_are_sums
#print axioms Rp2.C06.model_lines_are_sums
#print axioms Rp2.C06.key_uses_event_year
#print axioms Rp2.C06.to_date_cut_is_filter
#print axioms Rp2.C06.source_iterator_is_window
#print axioms Rp2.C06.source_yearly_loop_is_model
#print axioms Rp2.C06.source_yearly_cut
#print axioms Rp2.C06.source_yearly_loop_with_break_is_model
