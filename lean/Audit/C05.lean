import Rp2.Props.C05
#print axioms Rp2.C05.long_iff
#print axioms Rp2.C05.income_short
#print axioms Rp2.C05.never_long
