import Rp2.Props.C05
#print axioms Rp2.C05.long_iff
#print axioms Rp2.C05.income_short
#print axioms Rp2.C05.never_long
#print axioms Rp2.C05.us_365
#print axioms Rp2.C05.es_365
#print axioms Rp2.C05.jp_never
#print axioms Rp2.C05.ie_never
#print axioms Rp2.C05.generic_configured
#print axioms Rp2.C05.generic_takes_configured_value
#print axioms Rp2.C05.source_long_term_test_is_the_models
