import Rp2.Props.C08
#print axioms Rp2.C08.rejected_iff_some_prefix_overdrawn
#print axioms Rp2.C08.allowed_never_rejects
#print axioms Rp2.C08.tolerance_on_grid
#print axioms Rp2.C08.model_rejected_iff
#print axioms Rp2.C08.model_allow_negative
#print axioms Rp2.C08.model_never_negative_never_rejected
#print axioms Rp2.C08.source_overdraft_test_is_tolerance
#print axioms Rp2.C08.source_loop_round_rejects_iff_model
