import Rp2.Props.C08
#print axioms Rp2.C08.rejected_iff_some_prefix_overdrawn
#print axioms Rp2.C08.allowed_never_rejects
