import Rp2.Props.C20
#print axioms Rp2.C20.sheets_and_chain
#print axioms Rp2.C20.years_sorted_once
#print axioms Rp2.C20.sheet_rows_each_once
#print axioms Rp2.C20.summary_lines
#print axioms Rp2.C20.sheets_carry_asset_and_year
