import Rp2.Props.C15
#print axioms Rp2.C15.realized_plus_unrealized_is_acquired
#print axioms Rp2.C15.weights_add_to_one
#print axioms Rp2.C15.unit_cost_is_cost_over_balance
#print axioms Rp2.C15.model_lists_positive_balances
#print axioms Rp2.C15.model_row_columns
#print axioms Rp2.C15.model_holder_balance_is_sum
