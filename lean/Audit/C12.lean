import Rp2.Props.C12
#print axioms Rp2.C12.in_row_accepted_is_valid
#print axioms Rp2.C12.out_row_accepted_is_valid
#print axioms Rp2.C12.intra_row_accepted_is_valid
#print axioms Rp2.C12.non_numeric_rejected
#print axioms Rp2.C12.bad_row_aborts
#print axioms Rp2.C12.in_table_required
#print axioms Rp2.C12.cli_fault_rejected
#print axioms Rp2.C12.type_table_agrees
#print axioms Rp2.C12.config_accepted_is_valid
#print axioms Rp2.C12.config_fault_rejected
#print axioms Rp2.C12.header_column_table_agrees
#print axioms Rp2.C12.workbook_fault_rejected
