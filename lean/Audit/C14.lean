import Rp2.Props.C14
#print axioms Rp2.C14.each_fraction_one_row_no_overwrite
