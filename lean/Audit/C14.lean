import Rp2.Props.C14
#print axioms Rp2.C14.each_fraction_one_row_no_overwrite
#print axioms Rp2.C14.us_map
#print axioms Rp2.C14.ie_map
#print axioms Rp2.C14.map_is_the_propertys
#print axioms Rp2.C14.model_every_fraction_once_on_its_sheet
#print axioms Rp2.C14.model_row_values
