import Rp2.Props.C04
#print axioms Rp2.C04.proceeds_formula
#print axioms Rp2.C04.cost_formula
#print axioms Rp2.C04.income_cost_zero
#print axioms Rp2.C04.gain_formula
#print axioms Rp2.C04.taxable_value_out
#print axioms Rp2.C04.supplied_in_some
#print axioms Rp2.C04.supplied_in_none
#print axioms Rp2.C04.supplied_in_with_fee_none
#print axioms Rp2.C04.supplied_out_some
#print axioms Rp2.C04.supplied_out_fee_none
#print axioms Rp2.C04.parts_add_to_whole
#print axioms Rp2.C04.two_roundings_bound
#print axioms Rp2.C04.round_half_even_err
#print axioms Rp2.C04.decimal_context
