import Rp2.Props.C13
#print axioms Rp2.C13.fractions_once_in_order
#print axioms Rp2.C13.fractions_count
#print axioms Rp2.C13.event_labels
#print axioms Rp2.C13.rows_once
#print axioms Rp2.C13.model_transactions_once
#print axioms Rp2.C13.model_report_always_generated
#print axioms Rp2.C13.lot_labels
#print axioms Rp2.C13.model_running_sums_over_whole_history
#print axioms Rp2.C13.model_each_fraction_one_detail_row
#print axioms Rp2.C13.model_running_sum_per_shown_fraction
