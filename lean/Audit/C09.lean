import Rp2.Props.C09
#print axioms Rp2.C09.earlier_fractions_unchanged
#print axioms Rp2.C09.model_to_date_run_is_prefix_of_full_run
#print axioms Rp2.C09.model_truncated_history_same_fractions
#print axioms Rp2.C09.stable_sort_commutes_with_filter
#print axioms Rp2.C09.model_to_date_run_equals_truncated_run
#print axioms Rp2.C09.schedule_entries_after_the_to_date_are_irrelevant
#print axioms Rp2.C09.source_iterator_is_window
