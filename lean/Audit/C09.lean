import Rp2.Props.C09
#print axioms Rp2.C09.earlier_fractions_unchanged
