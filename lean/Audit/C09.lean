import Rp2.Props.C09
#print axioms Rp2.C09.earlier_fractions_unchanged
#print axioms Rp2.C09.model_to_date_run_is_prefix_of_full_run
