import Rp2.Props.C18
#print axioms Rp2.C18.no_networking_or_process_import
#print axioms Rp2.C18.no_process_or_dynamic_code_call
#print axioms Rp2.C18.dynamic_imports_load_rp2_plugins_only
#print axioms Rp2.C18.own_opens_are_read_only
#print axioms Rp2.C18.written_files_are_reports
#print axioms Rp2.C18.file_mutating_calls_are_log_output_and_reports
#print axioms Rp2.C18.written_files_are_reports_from_inputs
